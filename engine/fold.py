"""E1 - constant folder.

Folds expressions made of literals, arithmetic, comparisons, names and
attributes that resolve (through the index) to module or class constants,
enum member values, struct.calcsize(<literal>), len(<literal>).
Anything else folds to UNKNOWN (never guessed).
"""
import ast
import operator
import struct

from .index import norm, attr_chain


class _Unknown(object):
    def __repr__(self):
        return "UNKNOWN"

    def __bool__(self):
        raise TypeError("UNKNOWN has no truth value")


UNKNOWN = _Unknown()


class Raises(object):
    """result of run_program: the folded program raises this exception on the given constants"""
    def __init__(self, name):
        self.name = name

    def __repr__(self):
        return "<raises %s>" % self.name


class EnumVal(object):
    """value of a SerializableEnum member: PacketType.APP"""

    def __init__(self, cls_qual, member, value):
        self.cls_qual = cls_qual
        self.member = member
        self.value = value

    def __eq__(self, other):
        return isinstance(other, EnumVal) and (self.cls_qual, self.member) == (other.cls_qual, other.member)

    def __hash__(self):
        return hash((self.cls_qual, self.member))

    def __repr__(self):
        return "%s.%s" % (self.cls_qual.split(":")[-1], self.member)


_BIN = {
    ast.Add: operator.add, ast.Sub: operator.sub, ast.Mult: operator.mul,
    ast.FloorDiv: operator.floordiv, ast.Div: operator.truediv, ast.Mod: operator.mod,
    ast.Pow: operator.pow, ast.LShift: operator.lshift, ast.RShift: operator.rshift,
    ast.BitOr: operator.or_, ast.BitAnd: operator.and_, ast.BitXor: operator.xor,
}
_CMP = {
    ast.Eq: operator.eq, ast.NotEq: operator.ne, ast.Lt: operator.lt, ast.LtE: operator.le,
    ast.Gt: operator.gt, ast.GtE: operator.ge,
}


class Folder(object):
    def __init__(self, repo):
        self.repo = repo
        self._cache = {}
        self._active = set()

    # -- helpers ---------------------------------------------------------

    def is_enum_class(self, ci):
        return any(c.name == "SerializableEnum" for c in self.repo.mro(ci))

    def class_attr(self, ci, name, env=None):
        """fold Class.NAME (class body constant, evaluated in class-body scope)"""
        owner, node = self.repo.class_const(ci, name)
        if node is None:
            return UNKNOWN
        key = (owner.qual, name)
        if key in self._cache:
            return self._cache[key]
        if key in self._active:
            return UNKNOWN
        self._active.add(key)
        try:
            v = self.fold(node, owner.module, cls=owner, in_class_body=True)
        finally:
            self._active.discard(key)
        if v is not UNKNOWN and self.is_enum_class(owner) and not name.startswith("_") and name != "type_id":
            v = EnumVal(owner.qual, name, v)
        self._cache[key] = v
        return v

    def module_attr(self, mod, name):
        key = (mod.name, name)
        if key in self._cache:
            return self._cache[key]
        if key in self._active or name not in mod.assigns:
            return UNKNOWN
        if len(mod.assigns[name]) != 1:
            return UNKNOWN     # reassigned module global: not a constant
        self._active.add(key)
        try:
            v = self.fold(mod.assigns[name][0], mod)
        finally:
            self._active.discard(key)
        self._cache[key] = v
        return v

    # -- main ------------------------------------------------------------

    def fold_with(self, node, mod, cls=None, env=None, overrides=None):
        """fold with attribute overrides: {'Packet.MAX_SIZE': 484, ...} shadow class constants"""
        if overrides:
            node = _Subst(overrides).visit(_copy(node))
        return self.fold(node, mod, cls=cls, env=env)

    def fold(self, node, mod, cls=None, env=None, in_class_body=False):
        """env: dict name -> value for local bindings (parameters / straight-line locals).
        cls: ClassInfo used for `self.X` / `cls.X` and (in class body) bare names."""
        f = lambda n: self.fold(n, mod, cls=cls, env=env, in_class_body=in_class_body)
        if isinstance(node, ast.Constant):
            return node.value
        if isinstance(node, ast.Name):
            if env is not None and node.id in env:
                return env[node.id]
            if in_class_body and cls is not None and node.id in cls.consts:
                return self.class_attr(cls, node.id)
            r = self.repo.resolve_name(mod, node.id)
            if r is None:
                if node.id in ("True", "False", "None"):
                    return {"True": True, "False": False, "None": None}[node.id]
                return UNKNOWN
            if r[0] == "const":
                return self.module_attr(r[1], r[2])
            return UNKNOWN
        if isinstance(node, ast.Attribute):
            chain = attr_chain(node)
            if chain is None:
                return UNKNOWN
            # X.value on enum members
            if chain[-1] == "value" and len(chain) >= 3:
                inner = f(node.value)
                if isinstance(inner, EnumVal):
                    return inner.value
                return UNKNOWN
            head = chain[0]
            if head in ("self", "cls") and cls is not None and len(chain) == 2 and (env is None or head not in env):
                return self.class_attr(cls, chain[1])
            r = self.repo.resolve_name(mod, head)
            if r is None:
                return UNKNOWN
            rest = chain[1:]
            while rest and r is not None:
                if r[0] == "module":
                    r2 = self.repo.resolve_name(r[1], rest[0])
                    if r2 is None:
                        return UNKNOWN
                    if r2[0] == "const" and len(rest) == 1:
                        return self.module_attr(r2[1], r2[2])
                    r, rest = r2, rest[1:]
                elif r[0] == "class":
                    if len(rest) == 1:
                        return self.class_attr(r[1], rest[0])
                    return UNKNOWN
                else:
                    return UNKNOWN
            return UNKNOWN
        if isinstance(node, ast.BinOp):
            l, r = f(node.left), f(node.right)
            if l is UNKNOWN or r is UNKNOWN or isinstance(l, EnumVal) or isinstance(r, EnumVal):
                return UNKNOWN
            try:
                return _BIN[type(node.op)](l, r)
            except Exception:
                return UNKNOWN
        if isinstance(node, ast.UnaryOp):
            v = f(node.operand)
            if v is UNKNOWN or isinstance(v, EnumVal):
                return UNKNOWN
            try:
                if isinstance(node.op, ast.USub):
                    return -v
                if isinstance(node.op, ast.UAdd):
                    return +v
                if isinstance(node.op, ast.Not):
                    return not v
                if isinstance(node.op, ast.Invert):
                    return ~v
            except Exception:
                return UNKNOWN
        if isinstance(node, ast.Compare) and len(node.ops) >= 1:
            vals = [f(node.left)] + [f(c) for c in node.comparators]
            if any(v is UNKNOWN for v in vals):
                return UNKNOWN
            try:
                res = True
                for op, a, b in zip(node.ops, vals, vals[1:]):
                    if type(op) in _CMP:
                        res = res and _CMP[type(op)](a, b)
                    elif isinstance(op, ast.In):
                        res = res and (a in b)
                    elif isinstance(op, ast.NotIn):
                        res = res and (a not in b)
                    elif isinstance(op, ast.Is):
                        res = res and (a is b)
                    elif isinstance(op, ast.IsNot):
                        res = res and (a is not b)
                    else:
                        return UNKNOWN
                return res
            except Exception:
                return UNKNOWN
        if isinstance(node, ast.BoolOp):
            vals = [f(v) for v in node.values]
            if any(v is UNKNOWN for v in vals):
                return UNKNOWN
            if isinstance(node.op, ast.And):
                res = True
                for v in vals:
                    res = v
                    if not v:
                        break
                return res
            res = False
            for v in vals:
                res = v
                if v:
                    break
            return res
        if isinstance(node, ast.IfExp):
            t = f(node.test)
            if t is UNKNOWN:
                return UNKNOWN
            return f(node.body) if t else f(node.orelse)
        if isinstance(node, (ast.Tuple, ast.List)):
            vals = [f(e) for e in node.elts]
            if any(v is UNKNOWN for v in vals):
                return UNKNOWN
            return tuple(vals) if isinstance(node, ast.Tuple) else list(vals)
        if isinstance(node, ast.Call):
            name = norm(node.func)
            args = [f(a) for a in node.args]
            if any(a is UNKNOWN for a in args) or node.keywords:
                # static/class method call of a package helper on constant args
                return self._fold_call(node, mod, cls, env, in_class_body)
            try:
                if name == "struct.calcsize" and len(args) == 1 and isinstance(args[0], str):
                    return struct.calcsize(args[0])
                if name == "len" and len(args) == 1 and isinstance(args[0], (bytes, str, tuple, list)):
                    return len(args[0])
                if name in ("int", "abs", "min", "max") and all(isinstance(a, (int, float)) for a in args):
                    return {"int": int, "abs": abs, "min": min, "max": max}[name](*args)
            except Exception:
                return UNKNOWN
            return self._fold_call(node, mod, cls, env, in_class_body, args)
        return UNKNOWN

    def _fold_call(self, node, mod, cls, env, in_class_body, args=None):
        """evaluate a small pure package function (constant program) on constant args"""
        if args is None or any(a is UNKNOWN for a in args) or node.keywords:
            return UNKNOWN
        target = None
        chain = attr_chain(node.func)
        if chain and len(chain) == 2:
            r = self.repo.resolve_name(mod, chain[0])
            if r and r[0] == "class":
                target = self.repo.resolve_method(r[1], chain[1])
            elif chain[0] in ("self", "cls") and cls is not None:
                target = self.repo.resolve_method(cls, chain[1])
        elif chain and len(chain) == 1:
            r = self.repo.resolve_name(mod, chain[0])
            if r and r[0] == "func":
                target = r[1]
        if target is None or target.is_lambda:
            return UNKNOWN
        params = target.params
        if not target.is_static and target.cls is not None:
            params = params[1:]
        if len(params) != len(args):
            return UNKNOWN
        return self.run_program(target, dict(zip(params, args)))

    def run_program(self, fi, env, collect=None):
        """Evaluate a *constant program*: straight-line assignments, if/elif/else on
        foldable tests and `return` of a foldable expression.  `collect`, when given,
        is a dict that receives every attribute store "Class.NAME = value".
        Returns the returned value, None when the body falls off the end, or UNKNOWN."""
        env = dict(env)
        res = self._run_block(fi.body, fi, env, collect)
        if res is _FALL:
            return None
        return res

    def _run_block(self, stmts, fi, env, collect):
        for st in stmts:
            if isinstance(st, ast.Expr) and isinstance(st.value, ast.Constant):
                continue   # docstring
            if isinstance(st, ast.Pass):
                continue
            if isinstance(st, ast.Return):
                if st.value is None:
                    return None
                return self._fold_prog(st.value, fi, env, collect)
            if isinstance(st, ast.Assign) and len(st.targets) == 1:
                v = self._fold_prog(st.value, fi, env, collect)
                t = st.targets[0]
                if isinstance(t, ast.Name):
                    env[t.id] = v
                    continue
                if isinstance(t, ast.Attribute) and collect is not None:
                    collect[norm(t)] = v
                    continue
                return UNKNOWN
            if isinstance(st, ast.AugAssign) and isinstance(st.target, ast.Name):
                cur = env.get(st.target.id, UNKNOWN)
                v = self._fold_prog(st.value, fi, env, collect)
                if cur is UNKNOWN or v is UNKNOWN:
                    env[st.target.id] = UNKNOWN
                else:
                    try:
                        env[st.target.id] = _BIN[type(st.op)](cur, v)
                    except Exception:
                        env[st.target.id] = UNKNOWN
                continue
            if isinstance(st, ast.Raise):
                exc = st.exc
                return Raises(norm(exc.func) if isinstance(exc, ast.Call) else norm(exc) if exc is not None else "")
            if isinstance(st, ast.If):
                t = self._fold_prog(st.test, fi, env, collect)
                if t is UNKNOWN:
                    return UNKNOWN
                r = self._run_block(st.body if t else st.orelse, fi, env, collect)
                if r is not _FALL:
                    return r
                continue
            return UNKNOWN
        return _FALL

    def _fold_prog(self, expr, fi, env, collect):
        # attribute stores made earlier in the same program shadow class constants
        if collect:
            expr = _Subst(collect).visit(_copy(expr))
        return self.fold(expr, fi.module, cls=fi.cls, env=env)


_FALL = object()


def _copy(node):
    from .index import clone_expr
    return clone_expr(node)


class _Subst(ast.NodeTransformer):
    def __init__(self, collect):
        self.collect = collect

    def visit_Attribute(self, node):
        key = norm(node)
        if key in self.collect and isinstance(node.ctx, ast.Load):
            v = self.collect[key]
            if v is not UNKNOWN and isinstance(v, (int, float, str, bytes, bool)) or v is None:
                return ast.copy_location(ast.Constant(value=v), node)
        return self.generic_visit(node)
