"""E2 - per-function control-flow graph.

Nodes are simple statements, leaf branch tests (boolean operators are split into
short-circuit branches), loop headers, `with` entries and `except` entries.
Edge labels: None (sequential), 'T'/'F' (test outcome), 'iter'/'done' (for
header), 'exc' (exception leaving a node *before* its effect), 'raise'
(explicit raise statement), 'ret' (return to exit).
"""
import ast

from .index import norm, Undecided

CATCH_ALL = ("Exception", "BaseException")


class Node(object):
    __slots__ = ("id", "kind", "ast", "stmt", "lineno", "handler_types", "try_depth")

    def __init__(self, id, kind, astnode=None, stmt=None):
        self.id = id
        self.kind = kind
        self.ast = astnode
        self.stmt = stmt if stmt is not None else astnode
        self.lineno = getattr(astnode, "lineno", 0) if astnode is not None else 0
        self.handler_types = None
        self.try_depth = 0

    def text(self):
        if self.ast is None:
            return "<%s>" % self.kind
        if self.kind == "for":
            return "for %s in %s" % (norm(self.ast.target), norm(self.ast.iter))
        if self.kind == "with":
            return "with " + ", ".join(norm(i) for i in self.ast.items)
        if self.kind == "except":
            return "except %s" % (norm(self.ast.type) if self.ast.type is not None else "")
        if isinstance(self.ast, (ast.FunctionDef, ast.ClassDef, ast.AsyncFunctionDef)):
            return "def %s" % self.ast.name
        return norm(self.ast)

    def __repr__(self):
        return "<%d %s %s>" % (self.id, self.kind, self.text()[:60])


class CFG(object):
    def __init__(self, fnode):
        self.fnode = fnode
        self.nodes = []
        self.succ = {}
        self.pred = {}
        self._owner = {}          # id(ast node) -> cfg node id
        self.entry = self._new("entry").id
        self.exit = self._new("exit").id
        self.raise_exit = self._new("raise").id
        self._loops = []          # stack of (continue_target_id, break_dangling_list)
        self._trys = []           # stack of (handler_entry_ids, catches_all)
        body = fnode.body if not isinstance(fnode, ast.Lambda) else [ast.Return(value=fnode.body, lineno=fnode.lineno)]
        dangling = self._block(body, [(self.entry, None)])
        self._connect(dangling, self.exit)
        self._dom = None
        self._pdom = None

    # ------------------------------------------------------------- building

    def _new(self, kind, astnode=None, stmt=None):
        n = Node(len(self.nodes), kind, astnode, stmt)
        n.try_depth = len(getattr(self, "_trys", []))
        self.nodes.append(n)
        self.succ[n.id] = []
        self.pred[n.id] = []
        return n

    def _edge(self, a, b, label=None):
        if (b, label) not in self.succ[a]:
            self.succ[a].append((b, label))
            self.pred[b].append((a, label))

    def _connect(self, dangling, target):
        for (a, label) in dangling:
            self._edge(a, target, label)

    def _own(self, astnode, nid, stop=()):
        """map astnode and its expression children to cfg node nid (not into nested stmts)"""
        stack = [astnode]
        while stack:
            n = stack.pop()
            if id(n) in self._owner and n is not astnode:
                continue
            self._owner[id(n)] = nid
            for c in ast.iter_child_nodes(n):
                if isinstance(c, ast.stmt) and c is not astnode:
                    continue
                if isinstance(c, ast.ExceptHandler):
                    continue
                if c in stop:
                    continue
                stack.append(c)

    def _exc_edges(self, nid, label="exc"):
        """exception leaving node nid: to the handlers of enclosing trys (outward until a
        catch-all handler), else to the raise exit"""
        for handlers, catch_all in reversed(self._trys):
            for h in handlers:
                self._edge(nid, h, label)
            if catch_all:
                return
        self._edge(nid, self.raise_exit, label)

    def _block(self, stmts, dangling):
        for st in stmts:
            dangling = self._stmt(st, dangling)
        return dangling

    def _test(self, expr, dangling, stmt):
        """returns (true_dangling, false_dangling)"""
        if isinstance(expr, ast.BoolOp):
            if isinstance(expr.op, ast.And):
                falses = []
                cur = dangling
                for v in expr.values:
                    t, f = self._test(v, cur, stmt)
                    falses += f
                    cur = t
                return cur, falses
            else:
                trues = []
                cur = dangling
                for v in expr.values:
                    t, f = self._test(v, cur, stmt)
                    trues += t
                    cur = f
                return trues, cur
        if isinstance(expr, ast.UnaryOp) and isinstance(expr.op, ast.Not):
            t, f = self._test(expr.operand, dangling, stmt)
            return f, t
        n = self._new("test", expr, stmt)
        self._own(expr, n.id)
        self._connect(dangling, n.id)
        self._exc_edges(n.id)
        return [(n.id, "T")], [(n.id, "F")]

    def _simple(self, st, dangling, kind="stmt"):
        n = self._new(kind, st, st)
        self._own(st, n.id)
        self._connect(dangling, n.id)
        return n

    def _stmt(self, st, dangling):
        if isinstance(st, ast.If):
            t, f = self._test(st.test, dangling, st)
            out = self._block(st.body, t)
            out2 = self._block(st.orelse, f) if st.orelse else f
            return out + out2
        if isinstance(st, ast.While):
            head = self._new("join", None, st)
            head.lineno = st.lineno
            self._connect(dangling, head.id)
            t, f = self._test(st.test, [(head.id, None)], st)
            breaks = []
            self._loops.append((head.id, breaks))
            body_out = self._block(st.body, t)
            self._loops.pop()
            self._connect(body_out, head.id)
            out = self._block(st.orelse, f) if st.orelse else f
            return out + breaks
        if isinstance(st, (ast.For, ast.AsyncFor)):
            head = self._new("for", st, st)
            self._own(st.iter, head.id)
            self._own(st.target, head.id)
            self._owner[id(st)] = head.id
            self._connect(dangling, head.id)
            self._exc_edges(head.id)
            breaks = []
            self._loops.append((head.id, breaks))
            body_out = self._block(st.body, [(head.id, "iter")])
            self._loops.pop()
            self._connect(body_out, head.id)
            out = [(head.id, "done")]
            if st.orelse:
                out = self._block(st.orelse, out)
            return out + breaks
        if isinstance(st, (ast.With, ast.AsyncWith)):
            n = self._new("with", st, st)
            for it in st.items:
                self._own(it, n.id)
            self._owner[id(st)] = n.id
            self._connect(dangling, n.id)
            self._exc_edges(n.id)
            return self._block(st.body, [(n.id, None)])
        if isinstance(st, ast.Try) or (hasattr(ast, "TryStar") and isinstance(st, getattr(ast, "TryStar"))):
            handler_nodes = []
            catch_all = False
            for h in st.handlers:
                hn = self._new("except", h, st)
                hn.try_depth = len(self._trys)
                self._owner[id(h)] = hn.id
                if h.type is not None:
                    self._own(h.type, hn.id)
                types = _handler_types(h)
                hn.handler_types = types
                if h.type is None or any(t in CATCH_ALL for t in types):
                    catch_all = True
                handler_nodes.append(hn)
            self._trys.append(([h.id for h in handler_nodes], catch_all))
            body_out = self._block(st.body, dangling)
            self._trys.pop()
            if st.orelse:
                body_out = self._block(st.orelse, body_out)
            outs = list(body_out)
            for h, hn in zip(st.handlers, handler_nodes):
                outs += self._block(h.body, [(hn.id, None)])
            if st.finalbody:
                outs = self._block(st.finalbody, outs)
            return outs
        if isinstance(st, ast.Return):
            n = self._simple(st, dangling)
            if st.value is not None:
                self._exc_edges(n.id)
            self._edge(n.id, self.exit, "ret")
            return []
        if isinstance(st, ast.Raise):
            n = self._simple(st, dangling)
            self._exc_edges(n.id, "raise")
            return []
        if isinstance(st, ast.Break):
            n = self._simple(st, dangling)
            if not self._loops:
                raise Undecided("break outside loop")
            self._loops[-1][1].append((n.id, None))
            return []
        if isinstance(st, ast.Continue):
            n = self._simple(st, dangling)
            if not self._loops:
                raise Undecided("continue outside loop")
            self._edge(n.id, self._loops[-1][0], None)
            return []
        if isinstance(st, (ast.FunctionDef, ast.AsyncFunctionDef, ast.ClassDef)):
            n = self._new("stmt", st, st)
            self._owner[id(st)] = n.id
            self._connect(dangling, n.id)
            return [(n.id, None)]
        if hasattr(ast, "Match") and isinstance(st, ast.Match):
            raise Undecided("match statement not modelled")
        # simple statement
        n = self._simple(st, dangling)
        if not isinstance(st, (ast.Pass, ast.Global, ast.Nonlocal)):
            self._exc_edges(n.id)
        if isinstance(st, ast.Assert):
            pass
        return [(n.id, None)]

    # ------------------------------------------------------------- queries

    def node_of(self, astnode):
        """cfg node that evaluates the given ast node (walks up parents if needed)"""
        n = astnode
        while n is not None:
            if id(n) in self._owner:
                return self.nodes[self._owner[id(n)]]
            n = getattr(n, "_parent", None)
        return None

    def find(self, pred):
        return [n for n in self.nodes if n.ast is not None and pred(n)]

    def stmts(self, types=None):
        out = []
        for n in self.nodes:
            if n.kind == "stmt" and (types is None or isinstance(n.ast, types)):
                out.append(n)
        return out

    def _compute_dom(self):
        ids = [n.id for n in self.nodes]
        reach = self.reachable(self.entry)
        full = set(reach)
        dom = {i: set(full) for i in reach}
        dom[self.entry] = {self.entry}
        changed = True
        order = sorted(reach)
        while changed:
            changed = False
            for i in order:
                if i == self.entry:
                    continue
                ps = [p for (p, _) in self.pred[i] if p in reach]
                if not ps:
                    new = {i}
                else:
                    new = set.intersection(*(dom[p] for p in ps)) | {i}
                if new != dom[i]:
                    dom[i] = new
                    changed = True
        self._dom = dom

    def dominators(self, nid):
        if self._dom is None:
            self._compute_dom()
        return self._dom.get(nid, set())

    def dominates(self, a, b):
        """every path entry -> b passes through a (a, b node ids). unreachable b: True"""
        if self._dom is None:
            self._compute_dom()
        if b not in self._dom:
            return True
        return a in self._dom[b]

    def reachable(self, src, avoid=(), skip_labels=(), through_effect=None, edge_ok=None):
        """set of node ids reachable from src (including src) avoiding nodes in `avoid`.
        through_effect: optional set of node ids whose *normal* out-edges are blocked
        (their 'exc' edges still count): used for 'reach X without executing def D'."""
        avoid = set(avoid)
        seen = set()
        stack = [src]
        while stack:
            n = stack.pop()
            if n in seen or (n in avoid and n != src):
                continue
            seen.add(n)
            for (d, label) in self.succ[n]:
                if label in skip_labels:
                    continue
                if through_effect is not None and n in through_effect and label not in ("exc",):
                    continue
                if edge_ok is not None and not edge_ok(self.nodes[n], self.nodes[d], label):
                    continue
                if d not in seen and d not in avoid:
                    stack.append(d)
        return seen

    def must_pass(self, src, dst, via, skip_labels=(), edge_ok=None):
        """True iff every path src -> dst passes through a node in `via` (ids).
        (vacuously True when dst is unreachable from src)"""
        via = set(via)
        if src in via or dst in via:
            return True
        return dst not in self.reachable(src, avoid=via, skip_labels=skip_labels, edge_ok=edge_ok)

    def edge_dominates(self, test_id, label, b):
        """every path entry -> b goes through edge (test_id --label-->)"""
        # remove the edge and check reachability of b
        seen = set()
        stack = [self.entry]
        while stack:
            n = stack.pop()
            if n in seen:
                continue
            seen.add(n)
            if n == b:
                return False
            for (d, l) in self.succ[n]:
                if n == test_id and l == label:
                    continue
                stack.append(d)
        return True

    def paths(self, src, targets, limit=4000, skip_labels=(), loop_once=True):
        """acyclic paths (each node at most once) from src to any node in targets.
        Returns list of paths; a path is a list of (node_id, label_taken_out_of_node);
        the last element is (target_id, None)."""
        targets = set(targets)
        out = []
        path = []
        onpath = set()

        def dfs(n):
            if len(out) >= limit:
                raise Undecided("path explosion (> %d paths)" % limit)
            if n in targets:
                out.append(path + [(n, None)])
                return
            if n in onpath:
                return
            onpath.add(n)
            for (d, label) in self.succ[n]:
                if label in skip_labels:
                    continue
                path.append((n, label))
                dfs(d)
                path.pop()
            onpath.discard(n)
        dfs(src)
        return out

    def path_tests(self, path):
        """[(test_expr_ast, polarity_bool)] along a path"""
        out = []
        for (nid, label) in path:
            n = self.nodes[nid]
            if n.kind == "test" and label in ("T", "F"):
                out.append((n.ast, label == "T"))
        return out

    def conditions_of(self, nid, loop_exits=True):
        """tests that control node nid by edge-dominance: list of (test_ast, polarity)
        such that every path entry -> nid takes that branch of that test.
        loop_exits=False drops the exit conditions of `while` loops that precede the node."""
        out = []
        for t in self.nodes:
            if t.kind != "test":
                continue
            if not loop_exits and isinstance(t.stmt, ast.While):
                inside = False
                p = self.nodes[nid].stmt
                while p is not None:
                    if p is t.stmt:
                        inside = True
                        break
                    p = getattr(p, "_parent", None)
                if not inside:
                    continue
            if not self.dominates(t.id, nid) or t.id == nid:
                continue
            for lab in ("T", "F"):
                if self.edge_dominates(t.id, lab, nid):
                    out.append((t.ast, lab == "T"))
        return out

    def dump(self):
        lines = []
        for n in self.nodes:
            lines.append("%3d %-6s %-60s -> %s" % (n.id, n.kind, n.text()[:60],
                         ", ".join("%d%s" % (d, ":" + l if l else "") for d, l in self.succ[n.id])))
        return "\n".join(lines)


def _handler_types(h):
    if h.type is None:
        return ["BaseException"]
    if isinstance(h.type, ast.Tuple):
        return [norm(e).split(".")[-1] for e in h.type.elts]
    return [norm(h.type).split(".")[-1]]


_CACHE = {}


def cfg_of(fi):
    """CFG for a FuncInfo (cached per node identity)"""
    key = id(fi.node)
    if key not in _CACHE:
        _CACHE[key] = CFG(fi.node)
    return _CACHE[key]
