"""E0 - repository index.

Parses every *.py file of the analysed package(s) and exposes module, class and
function tables keyed by qualified name ("connection:Packet.from_bytes").
Anchors are looked up by qualified name only; a missing anchor raises
AnchorMissing, which the runner turns into ANALYSIS-ERROR / exit 2.
"""
import ast
import hashlib
import os


class AnalysisError(Exception):
    """Base: the checker could not decide (exit 2, never an alarm)."""


class AnchorMissing(AnalysisError):
    pass


class ModelViolation(Exception):
    """raised by a shared model when building it already shows that the property is broken (for example: a helper the packing
    loops call raises for an argument they pass).  The framework records it as a violation of the rule that asked for the model."""
    def __init__(self, site, construct, why, witness=None):
        Exception.__init__(self, construct)
        self.site, self.construct, self.why, self.witness = site, construct, why, witness


class Undecided(AnalysisError):
    pass


def norm(node):
    """Normalised text of an AST node (formatting/line independent)."""
    if node is None:
        return "None"
    if isinstance(node, str):
        return node
    cached = getattr(node, "_norm_text", None)
    if cached is not None:
        return cached
    try:
        text = ast.unparse(node)
    except Exception:  # pragma: no cover
        text = ast.dump(node)
    try:
        node._norm_text = text       # the analysed trees are never mutated after indexing
    except Exception:
        pass
    return text


class Module(object):
    def __init__(self, name, path, relpath, src, translate=False):
        self.name = name
        self.path = path
        self.relpath = relpath
        self.src = src
        self.tree = ast.parse(src, filename=path)
        if translate and not os.environ.get("VERIF_NO_REFNAMES"):
            # module-level closures built by a factory are put back as plain functions before anything is indexed
            from . import refnames as _rn
            try:
                self.specialised = _rn.specialise_factories(self.tree) + _rn.expand_module_updates(self.tree)
            except RecursionError:
                self.specialised = 0
        self.digest = hashlib.sha256(src.encode("utf-8")).hexdigest()[:16]
        self.imports = {}      # local name -> ("module", modname) | ("symbol", modname, symbol)
        self.assigns = {}      # module-level name -> list of value nodes (in order)
        self.funcs = {}        # top-level function name -> FuncInfo
        self.classes = {}      # top-level class name -> ClassInfo
        for node in ast.walk(self.tree):
            for child in ast.iter_child_nodes(node):
                child._parent = node
        self.tree._parent = None


class ClassInfo(object):
    def __init__(self, module, node, qual, outer=None):
        self.module = module
        self.node = node
        self.name = node.name
        self.qual = qual                  # "connection:Packet"
        self.base_exprs = list(node.bases)
        self.bases = []                   # resolved ClassInfo list (package classes only)
        self.methods = {}                 # name -> FuncInfo
        self.consts = {}                  # name -> list of value nodes (class body assignments, in order)
        self.outer = outer

    def __repr__(self):
        return "<class %s>" % self.qual


class FuncInfo(object):
    def __init__(self, module, node, qual, cls=None, parent=None):
        self.module = module
        self.node = node
        self.qual = qual                  # "connection:Packet.from_bytes"
        self.cls = cls
        self.parent = parent              # enclosing FuncInfo for nested functions
        self.name = getattr(node, "name", "<lambda>")
        self.is_lambda = isinstance(node, ast.Lambda)

    @property
    def lineno(self):
        return self.node.lineno

    @property
    def params(self):
        a = self.node.args
        names = [x.arg for x in a.posonlyargs + a.args]
        if a.vararg:
            names.append(a.vararg.arg)
        names += [x.arg for x in a.kwonlyargs]
        if a.kwarg:
            names.append(a.kwarg.arg)
        return names

    @property
    def decorators(self):
        if self.is_lambda:
            return []
        return [norm(d) for d in self.node.decorator_list]

    @property
    def is_static(self):
        return "staticmethod" in self.decorators

    @property
    def is_classmethod(self):
        return "classmethod" in self.decorators

    @property
    def body(self):
        if self.is_lambda:
            return [ast.Return(value=self.node.body)]
        return self.node.body

    def __repr__(self):
        return "<func %s>" % self.qual


class Repo(object):
    """Index over one or more source directories.

    root: directory that contains the `mpgameserver` package (i.e. /repo).
    packages: sub-directories to parse (relative to root).
    """

    def __init__(self, root, packages=("mpgameserver",), recursive=False, translate=True):
        self.root = os.path.abspath(root)
        self.modules = {}
        self.funcs = {}
        self.classes = {}
        self.by_name_methods = {}   # method name -> [FuncInfo]
        self.consulted = set()
        for pkg in packages:
            base = os.path.join(self.root, pkg)
            if not os.path.isdir(base):
                raise AnchorMissing("package directory missing: %s" % base)
            for dirpath, dirnames, filenames in os.walk(base):
                dirnames.sort()
                if not recursive and os.path.abspath(dirpath) != base:
                    continue
                for fn in sorted(filenames):
                    if not fn.endswith(".py"):
                        continue
                    path = os.path.join(dirpath, fn)
                    rel = os.path.relpath(path, self.root)
                    modname = rel[:-3].replace(os.sep, ".")
                    short = modname.split(".", 1)[1] if modname.startswith("mpgameserver.") else modname
                    with open(path, encoding="utf-8") as f:
                        src = f.read()
                    try:
                        mod = Module(short, path, rel, src, translate=translate)
                    except SyntaxError as e:
                        raise AnalysisError("cannot parse %s: %s" % (rel, e))
                    self.modules[short] = mod
        for mod in self.modules.values():
            self._index_module(mod)
        self._resolve_bases()
        self.renamed = {}
        if translate and not os.environ.get("VERIF_NO_REFNAMES"):
            from . import refnames
            self.renamed = refnames.apply_reference(self)

    # ------------------------------------------------------------------ build

    def _index_module(self, mod):
        for node in mod.tree.body:
            self._index_stmt(mod, node, prefix="", cls=None, parent=None, top=True)
        # imports anywhere at module level (including inside try)
        for node in ast.walk(mod.tree):
            if isinstance(node, ast.Import):
                for a in node.names:
                    mod.imports[(a.asname or a.name).split(".")[0]] = ("module", a.name)
            elif isinstance(node, ast.ImportFrom):
                m = node.module or ""
                for a in node.names:
                    local = a.asname or a.name
                    if node.level and not m:
                        # from . import crypto
                        mod.imports[local] = ("module", "." + a.name)
                    else:
                        mod.imports[local] = ("symbol", ("." * node.level) + m, a.name)

    def _index_stmt(self, mod, node, prefix, cls, parent, top):
        if isinstance(node, (ast.FunctionDef, ast.AsyncFunctionDef)):
            qual = "%s:%s%s" % (mod.name, prefix, node.name)
            fi = FuncInfo(mod, node, qual, cls=cls, parent=parent)
            self.funcs[qual] = fi
            if cls is not None and parent is None:
                cls.methods[node.name] = fi
                self.by_name_methods.setdefault(node.name, []).append(fi)
            if top:
                mod.funcs[node.name] = fi
            for sub in ast.walk(node):
                if sub is node:
                    continue
                if isinstance(sub, (ast.FunctionDef, ast.AsyncFunctionDef, ast.ClassDef)):
                    # index direct nested definitions only once, via their own parent chain
                    if self._owner(sub) is node:
                        self._index_stmt(mod, sub, prefix + node.name + ".", None, fi, False)
                elif isinstance(sub, ast.Lambda):
                    if self._owner(sub) is node:
                        q = "%s:%s%s.<lambda@%s>" % (mod.name, prefix, node.name, self._lambda_key(sub))
                        self.funcs[q] = FuncInfo(mod, sub, q, cls=None, parent=fi)
        elif isinstance(node, ast.ClassDef):
            qual = "%s:%s%s" % (mod.name, prefix, node.name)
            ci = ClassInfo(mod, node, qual, outer=cls)
            self.classes[qual] = ci
            if top:
                mod.classes[node.name] = ci
            for sub in node.body:
                if isinstance(sub, ast.Assign):
                    for t in sub.targets:
                        if isinstance(t, ast.Name):
                            ci.consts.setdefault(t.id, []).append(sub.value)
                elif isinstance(sub, ast.AnnAssign) and isinstance(sub.target, ast.Name) and sub.value is not None:
                    ci.consts.setdefault(sub.target.id, []).append(sub.value)
                self._index_stmt(mod, sub, prefix + node.name + ".", ci, parent if not top else None, False)
        elif isinstance(node, (ast.Assign, ast.AnnAssign)) and top:
            targets = node.targets if isinstance(node, ast.Assign) else [node.target]
            value = node.value
            for t in targets:
                if isinstance(t, ast.Name) and value is not None:
                    mod.assigns.setdefault(t.id, []).append(value)
                    if isinstance(value, ast.Lambda):
                        q = "%s:%s" % (mod.name, t.id)
                        fi = FuncInfo(mod, value, q)
                        fi.name = t.id
                        self.funcs[q] = fi
                        mod.funcs[t.id] = fi
        elif isinstance(node, (ast.If, ast.Try)) and top:
            for sub in ast.iter_child_nodes(node):
                if isinstance(sub, ast.stmt):
                    self._index_stmt(mod, sub, prefix, cls, parent, top)
                elif isinstance(sub, ast.ExceptHandler):
                    for s2 in sub.body:
                        self._index_stmt(mod, s2, prefix, cls, parent, top)

    @staticmethod
    def _owner(node):
        """closest enclosing function/class definition node"""
        p = getattr(node, "_parent", None)
        while p is not None and not isinstance(p, (ast.FunctionDef, ast.AsyncFunctionDef, ast.ClassDef, ast.Lambda)):
            p = getattr(p, "_parent", None)
        return p

    @staticmethod
    def _lambda_key(node):
        # position independent key: the normalised text of the lambda
        return hashlib.sha1(norm(node).encode()).hexdigest()[:8]

    def _resolve_bases(self):
        for ci in self.classes.values():
            for b in ci.base_exprs:
                target = self.resolve_class_expr(ci.module, b)
                if target is not None:
                    ci.bases.append(target)

    # ------------------------------------------------------------------ lookups

    def mod(self, name):
        if name not in self.modules:
            raise AnchorMissing("module %s" % name)
        m = self.modules[name]
        self.consulted.add(m.relpath)
        return m

    def fn(self, qual):
        if qual not in self.funcs:
            raise AnchorMissing("function %s" % qual)
        f = self.funcs[qual]
        self.consulted.add(f.module.relpath)
        return f

    def has_fn(self, qual):
        return qual in self.funcs

    def cls(self, qual):
        if qual not in self.classes:
            raise AnchorMissing("class %s" % qual)
        c = self.classes[qual]
        self.consulted.add(c.module.relpath)
        return c

    def import_target_module(self, mod, dotted):
        """resolve a (possibly relative) module name to an indexed Module or None"""
        name = dotted.lstrip(".")
        if name.startswith("mpgameserver."):
            name = name[len("mpgameserver."):]
        if name in self.modules:
            return self.modules[name]
        return None

    def resolve_name(self, mod, name, _depth=0):
        """resolve a module-level name to ('class', ClassInfo) | ('func', FuncInfo) |
        ('module', Module) | ('const', Module, name) | None"""
        if _depth > 6:
            return None
        if name in mod.classes:
            return ("class", mod.classes[name])
        if name in mod.funcs:
            return ("func", mod.funcs[name])
        if name in mod.assigns:
            return ("const", mod, name)
        if name in mod.imports:
            imp = mod.imports[name]
            if imp[0] == "module":
                tm = self.import_target_module(mod, imp[1])
                if tm is not None:
                    return ("module", tm)
                return ("extmodule", imp[1])
            else:
                tm = self.import_target_module(mod, imp[1])
                if tm is None and imp[1].lstrip(".") in ("mpgameserver", ""):
                    # from mpgameserver import X  -> search package __init__ re-exports
                    init = self.modules.get("__init__")
                    if init is not None and imp[2] in init.imports:
                        return self.resolve_name(init, imp[2], _depth + 1)
                if tm is not None:
                    return self.resolve_name(tm, imp[2], _depth + 1)
                return ("external", imp[1], imp[2])
        return None

    def resolve_class_expr(self, mod, expr):
        if isinstance(expr, ast.Name):
            r = self.resolve_name(mod, expr.id)
            if r and r[0] == "class":
                return r[1]
        elif isinstance(expr, ast.Attribute) and isinstance(expr.value, ast.Name):
            r = self.resolve_name(mod, expr.value.id)
            if r and r[0] == "module":
                r2 = self.resolve_name(r[1], expr.attr)
                if r2 and r2[0] == "class":
                    return r2[1]
            elif r and r[0] == "class":
                # nested class attribute; not used by the repo
                return None
        return None

    def mro(self, ci):
        out = []
        seen = set()

        def visit(c):
            if c.qual in seen:
                return
            seen.add(c.qual)
            out.append(c)
            for b in c.bases:
                visit(b)
        visit(ci)
        return out

    def resolve_method(self, ci, name):
        for c in self.mro(ci):
            if name in c.methods:
                return c.methods[name]
        return None

    def subclasses(self, ci, strict=True):
        out = []
        for c in self.classes.values():
            if c is ci and strict:
                continue
            if ci in self.mro(c):
                out.append(c)
        return out

    def class_const(self, ci, name):
        """last class-body assignment of `name` along the MRO"""
        for c in self.mro(ci):
            if name in c.consts:
                return c, c.consts[name][-1]
        return None, None

    def functions_in(self, modname):
        return [f for q, f in self.funcs.items() if f.module.name == modname]

    def all_functions(self):
        return list(self.funcs.values())

    def files(self):
        return sorted((m.relpath, m.digest) for m in self.modules.values())


def clone_expr(node):
    """copy of an expression without the _parent back-links (deepcopy would follow them
    and copy the whole module)"""
    return ast.parse(ast.unparse(node), mode="eval").body


def enclosing_function_node(node):
    p = getattr(node, "_parent", None)
    while p is not None and not isinstance(p, (ast.FunctionDef, ast.AsyncFunctionDef, ast.Lambda)):
        p = getattr(p, "_parent", None)
    return p


def walk_own(fnode):
    """walk the nodes of a function body without descending into nested function /
    class definitions (lambdas are descended into: they are expressions)."""
    body = fnode.body if not isinstance(fnode, ast.Lambda) else [fnode.body]
    stack = list(reversed(body)) if isinstance(body, list) else [body]
    while stack:
        n = stack.pop()
        yield n
        for c in reversed(list(ast.iter_child_nodes(n))):
            if isinstance(c, (ast.FunctionDef, ast.AsyncFunctionDef, ast.ClassDef)):
                continue
            stack.append(c)


def calls_in(node_or_fn, own=True):
    """all ast.Call nodes inside a function (FuncInfo or ast node)"""
    n = node_or_fn.node if isinstance(node_or_fn, FuncInfo) else node_or_fn
    it = walk_own(n) if isinstance(n, (ast.FunctionDef, ast.AsyncFunctionDef, ast.Lambda)) and own else ast.walk(n)
    return [c for c in it if isinstance(c, ast.Call)]


def callee_name(call):
    """textual callee: 'a.b.c' or 'f'"""
    return norm(call.func)


def attr_chain(expr):
    """Attribute/Name chain as list of names, or None: self.ctxt.handler -> ['self','ctxt','handler']"""
    out = []
    while isinstance(expr, ast.Attribute):
        out.append(expr.attr)
        expr = expr.value
    if isinstance(expr, ast.Name):
        out.append(expr.id)
        return list(reversed(out))
    return None
