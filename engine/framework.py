"""Runner framework: obligations, verdicts, known findings, evidence, replay."""
import json
import os
import sys
import time
import traceback

from .index import Repo, AnalysisError, AnchorMissing, Undecided, ModelViolation, norm
from .fold import Folder

VERIF = os.path.dirname(os.path.dirname(os.path.abspath(__file__)))
HOLDS, VIOLATED = "HOLDS", "VIOLATED"


class Obligation(object):
    def __init__(self, prop, rule, site, construct, verdict, what="", witness=None, line=0, file="", nontrivial=True):
        self.prop = prop
        self.rule = rule
        self.site = site
        self.construct = construct
        self.verdict = verdict
        self.what = what
        self.witness = witness
        self.line = line
        self.file = file
        self.nontrivial = nontrivial

    @property
    def key(self):
        return "%s|%s|%s" % (self.rule, self.site, self.construct)

    def to_json(self):
        d = {"rule": self.rule, "site": self.site, "construct": self.construct, "verdict": self.verdict}
        if self.what:
            d["what"] = self.what
        if self.witness is not None:
            d["witness"] = self.witness
        if self.line:
            d["where"] = "%s:%d" % (self.file, self.line)
        return d


class Ctx(object):
    """what a rule function receives"""

    def __init__(self, prop, repo, tier, root):
        self.prop = prop
        self.repo = repo
        self.tier = tier
        self.root = root
        self.folder = Folder(repo)
        self.obligations = []
        self.notes = []
        self.analysed = {"functions": set(), "call_sites": 0, "cells": 0, "paths": 0, "mtus": 0, "rules": {}}
        self.instance_floor = []
        self.errors = []
        self._cg = None
        self.current_rule = None

    # -- results -----------------------------------------------------------

    def _site(self, site):
        if hasattr(site, "qual"):
            self.analysed["functions"].add(site.qual)
            self._last_line = getattr(site.node, "lineno", 0)
            return site.qual, site.module.relpath
        if isinstance(site, str) and site in self.repo.funcs:
            self.analysed["functions"].add(site)
            return site, self.repo.funcs[site].module.relpath
        if isinstance(site, str) and site in self.repo.classes:
            return site, self.repo.classes[site].module.relpath
        return str(site), ""

    def holds(self, rule, site, construct, what="", nontrivial=True):
        q, f = self._site(site)
        self.obligations.append(Obligation(self.prop, rule, q, _ctext(construct), HOLDS, what, None,
                                           getattr(construct, "lineno", 0), f, nontrivial))
        self.analysed["rules"][rule] = self.analysed["rules"].get(rule, 0) + 1

    def violated(self, rule, site, construct, what="", witness=None, line=0):
        q, f = self._site(site)
        self._last_line = 0
        q, f = self._site(site)
        self.obligations.append(Obligation(self.prop, rule, q, _ctext(construct), VIOLATED, what or _ctext(construct), witness,
                                           line or getattr(construct, "lineno", 0) or self._last_line, f, True))
        self.analysed["rules"][rule] = self.analysed["rules"].get(rule, 0) + 1

    def check(self, ok, rule, site, construct, what="", witness=None, line=0):
        if ok:
            self.holds(rule, site, construct, what)
        else:
            self.violated(rule, site, construct, what, witness, line)
        return ok

    def note(self, text):
        if text not in self.notes:
            self.notes.append(text)

    def expect(self, rule, what, found, minimum):
        """instance floor: a rule matching fewer sites than confirmed by hand is analysis-broken"""
        self.instance_floor.append((rule, what, found, minimum))
        if found < minimum:
            # deferred: the other rules (and the rest of this one, as far as it gets) are still evaluated, so that a
            # violation found elsewhere is reported; without any violation the run ends as ANALYSIS-ERROR / exit 2
            self.errors.append("AnchorMissing: %s: %s: matched %d site(s), expected at least %d" % (rule, what, found, minimum))
            return False
        return True

    def require(self, rule, site, what, found, minimum=1):
        """a *mechanism* construct (guard, verification call, handler) must be present: its absence in an
        existing anchor function is a violation of the rule, not an analysis error"""
        if found < minimum:
            self.violated(rule, site, "missing: " + what, "required construct not found: %s (found %d, need %d)" % (what, found, minimum),
                          witness={"found": found, "required": minimum})
            return False
        self.instance_floor.append((rule, what, found, minimum))
        return True

    def undecided(self, rule, site, reason):
        raise Undecided("rule=%s site=%s reason=%s" % (rule, getattr(site, "qual", site), reason))

    # -- shared analyses ---------------------------------------------------

    def fn(self, qual):
        f = self.repo.fn(qual)
        self.analysed["functions"].add(qual)
        return f

    def callgraph(self):
        if self._cg is None:
            from .callgraph import CallGraph
            self._cg = CallGraph(self.repo)
        return self._cg


def _ctext(c):
    if isinstance(c, str):
        return c
    return norm(c)


# ---------------------------------------------------------------------------


def load_known():
    path = os.path.join(VERIF, "known_findings.json")
    if not os.path.exists(path):
        return []
    with open(path) as f:
        return json.load(f).get("findings", [])


def run_property(prop, rules_module, root, tier, replay=None, quiet=False, write_evidence=True, evidence_dir=None):
    """returns exit code"""
    t0 = time.time()
    seed = int(os.environ.get("VERIF_SEED", "0") or 0)
    out = []
    try:
        packages = ("mpgameserver",)
        repo = Repo(root, packages=packages)
        ctx = Ctx(prop, repo, tier, root)
        if tier == "thorough":
            extra = [p for p in ("demo", "utils") if os.path.isdir(os.path.join(root, p))]
            try:
                ctx.extra_repo = Repo(root, packages=tuple(extra), recursive=False) if extra else None
            except AnalysisError:
                ctx.extra_repo = None
        else:
            ctx.extra_repo = None
        for (rid, fnc) in rules_module.RULES:
            if replay and replay.get("rule") != rid:
                continue
            ctx.current_rule = rid
            try:
                fnc(ctx)
            except ModelViolation as e:
                ctx.violated(rid, e.site, e.construct, e.why, e.witness)
            except AnalysisError as e:
                ctx.errors.append("%s: %s: %s" % (rid, type(e).__name__, e))
            except Exception as e:      # internal error inside one rule: never an alarm, the other rules still run
                ctx.errors.append("%s: internal %s: %s | %s" % (rid, type(e).__name__, e, traceback.format_exc().strip().splitlines()[-3:]))
    except AnalysisError as e:
        print("ANALYSIS-ERROR property=%s %s: %s" % (prop, type(e).__name__, e))
        return 2
    except Exception as e:  # internal error: never an alarm
        tb = traceback.format_exc()
        print("ANALYSIS-ERROR property=%s internal %s: %s" % (prop, type(e).__name__, e))
        print(tb)
        return 2

    known = [k for k in load_known() if k.get("property") == prop and k.get("status") == "known"]
    known_keys = {k["key"]: k for k in known}
    violations = [o for o in ctx.obligations if o.verdict == VIOLATED]
    if replay:
        violations = [o for o in violations if o.key == replay.get("key")] or violations
    unknown = [o for o in violations if o.key not in known_keys]
    reported_known = [o for o in violations if o.key in known_keys]

    edir = evidence_dir or os.path.join(VERIF, "evidence")
    os.makedirs(os.path.join(edir, "replay"), exist_ok=True)
    for o in reported_known:
        print("KNOWN-FINDING: property=%s %s" % (prop, known_keys[o.key].get("what", o.what)))
    code = 0
    for i, o in enumerate(unknown):
        rp = os.path.join(edir, "replay", "%s-%d.json" % (prop, i))
        with open(rp, "w") as f:
            json.dump({"property": prop, "rule": o.rule, "key": o.key, "site": o.site,
                       "construct": o.construct, "what": o.what, "witness": o.witness,
                       "where": "%s:%d" % (o.file, o.line)}, f, indent=1, default=str)
        print("%s:%d %s rule=%s instance=%s witness=%s :: %s" % (o.file, o.line, o.site, o.rule,
              o.construct[:100], json.dumps(o.witness, default=str)[:300], o.what))
        print("VIOLATION property=%s replay=%s" % (prop, rp))
        code = 1

    for err in ctx.errors:
        print("ANALYSIS-ERROR property=%s %s" % (prop, err))
    if ctx.errors and code == 0:
        code = 2
    wall = time.time() - t0
    if write_evidence and not replay and code != 2:
        ev = make_evidence(prop, rules_module, ctx, tier, seed, wall, unknown, reported_known)
        with open(os.path.join(edir, "%s.json" % prop), "w") as f:
            json.dump(ev, f, indent=1, default=str)
    if not quiet:
        n = len(ctx.obligations)
        h = sum(1 for o in ctx.obligations if o.verdict == HOLDS)
        print("%s tier=%s obligations=%d holds=%d violated=%d (known=%d) functions=%d rules=%d wall=%.2fs" % (
            prop, tier, n, h, len(violations), len(reported_known), len(ctx.analysed["functions"]),
            len(ctx.analysed["rules"]), wall))
    return code


def _idioms_note():
    try:
        from rules.common import IDIOMS_NOTE
        return IDIOMS_NOTE
    except Exception:
        return ""


def make_evidence(prop, rules_module, ctx, tier, seed, wall, unknown, reported_known):
    obs = ctx.obligations
    distinct = len({o.key for o in obs if o.nontrivial})
    samples = []
    seen_rules = set()
    for o in obs:
        if o.rule not in seen_rules or o.verdict == VIOLATED:
            samples.append(o.to_json())
            seen_rules.add(o.rule)
    samples = samples[:40]
    cov = {
        "explanation": rules_module.EXPLANATION + _idioms_note(),
        "obligations": len(obs),
        "discharged": sum(1 for o in obs if o.verdict == HOLDS),
        "evaluations": len(obs),
        "distinct_nontrivial": distinct,
        "rule": "obligation = (rule x construct found in the current source); enumerated by walking the "
                "anchored functions' AST/CFG/call graph; an obligation is non-trivial when its site matched a "
                "real construct of the current tree (never vacuous); distinct by (rule, function, normalised construct)",
        "samples": samples,
        "analysed": {
            "root": ctx.root,
            "files": [{"file": f, "sha256_16": d} for (f, d) in ctx.repo.files() if f in ctx.repo.consulted] or
                     [{"file": f, "sha256_16": d} for (f, d) in ctx.repo.files()],
            "functions": sorted(ctx.analysed["functions"]),
            "rules": ctx.analysed["rules"],
            "call_sites": ctx.analysed["call_sites"],
            "partition_cells": ctx.analysed["cells"],
            "paths": ctx.analysed["paths"],
            "mtus": ctx.analysed["mtus"],
            "instance_floors": [{"rule": r, "what": w, "found": f, "minimum": m} for (r, w, f, m) in ctx.instance_floor],
        },
        "known_findings_reported": [o.key for o in reported_known],
        "analysis_errors": list(ctx.errors),
        "notes": ctx.notes,
        "exhaustive": True,
        "trusted_base": ["CPython ast / symtable / re._parser / struct.calcsize", "engine/*.py of /verif"],
    }
    return {
        "property_id": prop,
        "tier": tier,
        "seed": seed,
        "level": "other",
        "coverage": cov,
        "assumptions": list(rules_module.ASSUMPTIONS),
        "wall_s": round(wall, 3),
        "violations": len(unknown),
    }
