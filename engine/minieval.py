"""E9 - partial evaluation of small, pure, string/list/dict-building functions on constant arguments.

Some rules are about *what a function builds* (the regular expression a route pattern is translated to), not about how its
statements are arranged.  For such functions the source is interpreted by this evaluator on a handful of constant arguments
chosen by the rule: assignments, augmented assignments, if / for / while / continue / break / return / raise, comprehensions,
conditional expressions, comparisons, arithmetic, subscripts and slices, displays, and calls of a closed list of pure builtins
and str / bytes / list / dict / tuple methods (executed on the constant values - they are library operations on constants, the
analysed program itself is never imported or run).  Class- and module-level constants are evaluated from their defining
expressions.  A call outside the closed list is either *symbolic* (named by the caller: `re.compile(x)` becomes the tuple
('re.compile', x)) or makes the evaluation Undecided.  Loops are bounded."""
import ast
import re as _re

from .index import Undecided, norm


class Raised(Exception):
    def __init__(self, typ, args):
        Exception.__init__(self, typ)
        self.typ = typ
        self.eargs = args


class Stopped(Exception):
    """evaluation reached a call the caller asked to stop at"""
    def __init__(self, fn, args, kwargs=None):
        Exception.__init__(self, fn)
        self.fn = fn
        self.args_ = args
        self.kwargs_ = dict(kwargs or {})


class _Return(Exception):
    def __init__(self, value):
        self.value = value


class _Break(Exception):
    pass


class _Continue(Exception):
    pass


PURE_BUILTINS = {"len": len, "str": str, "int": int, "list": list, "dict": dict, "tuple": tuple, "range": range, "enumerate": enumerate, "zip": zip,
                 "sorted": sorted, "reversed": reversed, "min": min, "max": max, "any": any, "all": all, "bool": bool, "set": set, "frozenset": frozenset,
                 "abs": abs, "sum": sum, "repr": repr, "ord": ord, "chr": chr, "bytes": bytes,
                 "filter": lambda f, it: [x for x in it if x] if f is None else _undecided("filter with a function"), "divmod": divmod}


def _undecided(what):
    raise Undecided("minieval: %s" % what)
PURE_METHODS = {
    _re.Pattern: {"search", "match", "fullmatch", "findall", "sub", "split"},
    _re.Match: {"group", "groups", "groupdict", "start", "end", "span"},
    str: {"split", "rsplit", "startswith", "endswith", "join", "strip", "lstrip", "rstrip", "lower", "upper", "replace", "format", "find", "index", "count", "translate", "rfind", "removeprefix", "removesuffix", "casefold",
          "partition", "rpartition", "isdigit", "isalpha", "isalnum", "encode", "title", "splitlines", "zfill"},
    bytes: {"split", "rsplit", "startswith", "endswith", "join", "strip", "lstrip", "rstrip", "replace", "find", "decode", "hex", "count", "partition", "rpartition", "index"},
    list: {"append", "extend", "insert", "pop", "index", "count", "copy", "reverse", "sort", "remove", "clear"},
    dict: {"get", "keys", "values", "items", "copy", "update", "pop", "setdefault"},
    tuple: {"index", "count"},
    set: {"add", "discard", "union", "copy", "intersection", "difference", "symmetric_difference", "issubset", "issuperset", "isdisjoint", "remove", "update", "clear"},
    frozenset: {"union", "copy", "intersection", "difference", "symmetric_difference", "issubset", "issuperset", "isdisjoint"},
}
import struct as _struct
import types as _types
import base64 as _b64
import binascii as _binascii
PURE_FUNCS = {"re.escape": _re.escape, "re.compile": _re.compile, "re.search": _re.search, "re.match": _re.match, "re.fullmatch": _re.fullmatch, "re.sub": _re.sub, "re.split": _re.split,
              "re.findall": _re.findall, "str.maketrans": str.maketrans, "bytes.maketrans": bytes.maketrans, "struct.unpack": _struct.unpack, "struct.unpack_from": _struct.unpack_from, "struct.pack": _struct.pack, "struct.calcsize": _struct.calcsize,
              "int.from_bytes": int.from_bytes, "base64.b64encode": _b64.b64encode, "base64.b64decode": _b64.b64decode,
              "base64.urlsafe_b64encode": _b64.urlsafe_b64encode, "base64.urlsafe_b64decode": _b64.urlsafe_b64decode}
# library exception -> (name the program could catch it by, names of its bases the program could catch it by)
EXC_BASES = {"struct.error": ("Exception",), "binascii.Error": ("ValueError", "Exception"), "UnicodeEncodeError": ("UnicodeError", "ValueError", "Exception"),
             "UnicodeDecodeError": ("UnicodeError", "ValueError", "Exception"), "ValueError": ("Exception",), "TypeError": ("Exception",), "KeyError": ("LookupError", "Exception"),
             "IndexError": ("LookupError", "Exception"), "AttributeError": ("Exception",), "ZeroDivisionError": ("ArithmeticError", "Exception"),
             "RuntimeError": ("Exception",), "NotImplementedError": ("RuntimeError", "Exception"), "Exception": ()}
EXC_NAMES = {"ValueError", "TypeError", "KeyError", "IndexError", "Exception", "RuntimeError", "NotImplementedError", "AttributeError"}


class Obj(object):
    """an opaque stand-in object of a model (a compiled pattern, a match): true, equal only to itself, no attributes; its
    methods are the evaluator's method_stubs"""
    def __init__(self, name):
        self.name = name

    def __repr__(self):
        return "<%s>" % self.name


class Rec(Obj):
    """a stand-in record: an object of the model that only carries attributes (a parsed header, a packet under construction)"""
    def __init__(self, name, **attrs):
        Obj.__init__(self, name)
        self.attrs = dict(attrs)


class MiniEval(object):
    def __init__(self, repo, folder, fi, symbolic=(), max_steps=20000, self_attrs=None, stubs=None, stop_at=()):
        self.self_attrs = dict(self_attrs or {})      # constant instance attributes of the receiver (self.buf = b"...")
        self.stubs = dict(stubs or {})                # call text -> stand-in (os.path.abspath as the identity on an absolute path)
        self.stop_at = set(stop_at)                   # call texts at which evaluation ends with Stopped(fn, args)
        self.repo = repo
        self.folder = folder
        self.fi = fi
        self.symbolic = set(symbolic)
        self.steps = 0
        self.max_steps = max_steps

    # ------------------------------------------------------------------ entry

    def call(self, args):
        """evaluate the function on positional argument values (the receiver of a method is the marker 'self').
        -> ('return', value) | ('raise', type name, args)"""
        params = self.fi.params
        env = {}
        vals = list(args)
        if self.fi.cls is not None and not self.fi.is_static and params:
            env[params[0]] = ("<self>",)
            params = params[1:]
        if len(vals) > len(params):
            raise Undecided("minieval: too many arguments for %s" % self.fi.qual)
        for p, v in zip(params, vals):
            env[p] = v
        a = self.fi.node.args
        defaults = dict(zip(reversed([x.arg for x in a.args]), reversed(a.defaults)))
        for p in params[len(vals):]:
            if p in defaults:
                env[p] = self.ev(defaults[p], env)
            else:
                raise Undecided("minieval: missing argument %s" % p)
        try:
            self.block(self.fi.node.body, env)
        except _Return as r:
            return ("return", r.value)
        except Raised as r:
            return ("raise", r.typ, r.eargs)
        return ("return", None)

    def tick(self):
        self.steps += 1
        if self.steps > self.max_steps:
            raise Undecided("minieval: step bound exceeded in %s" % self.fi.qual)

    # ------------------------------------------------------------------ statements

    def block(self, stmts, env):
        for st in stmts:
            self.stmt(st, env)

    def stmt(self, st, env):
        self.tick()
        if isinstance(st, ast.Expr):
            if isinstance(st.value, ast.Constant):
                return
            self.ev(st.value, env)
            return
        if isinstance(st, ast.Assign):
            v = self.ev(st.value, env)
            for t in st.targets:
                self.assign(t, v, env)
            return
        if isinstance(st, ast.AnnAssign):
            if st.value is not None:
                self.assign(st.target, self.ev(st.value, env), env)
            return
        if isinstance(st, ast.AugAssign):
            cur = self.ev(_load(st.target), env)
            v = self.binop(st.op, cur, self.ev(st.value, env), st)
            self.assign(st.target, v, env)
            return
        if isinstance(st, ast.If):
            self.block(st.body if self.truth(self.ev(st.test, env)) else st.orelse, env)
            return
        if isinstance(st, ast.For):
            it = self.ev(st.iter, env)
            if isinstance(it, dict):
                it = list(it.keys())
            try:
                seq = it if isinstance(it, _types.GeneratorType) else list(it)      # (a generator is consumed as the loop asks for values)
            except TypeError:
                raise Undecided("minieval: loop over %s" % norm(st.iter))
            broke = False
            for x in seq:
                self.tick()
                self.assign(st.target, x, env)
                try:
                    self.block(st.body, env)
                except _Continue:
                    continue
                except _Break:
                    broke = True
                    break
            if not broke:
                self.block(st.orelse, env)
            return
        if isinstance(st, ast.While):
            while self.truth(self.ev(st.test, env)):
                self.tick()
                try:
                    self.block(st.body, env)
                except _Continue:
                    continue
                except _Break:
                    break
            return
        if isinstance(st, ast.Return):
            raise _Return(self.ev(st.value, env) if st.value is not None else None)
        if isinstance(st, ast.Raise):
            if st.exc is None:
                cur = env.get("<handling>")
                if cur is None:
                    raise Undecided("minieval: bare raise")
                raise Raised(cur[1], cur[2])
            e = st.exc
            if isinstance(e, ast.Call) and isinstance(e.func, ast.Name) and e.func.id not in env:
                raise Raised(e.func.id, tuple(self.ev(a, env) for a in e.args))
            if isinstance(e, ast.Name) and e.id in env:
                v = env[e.id]
                if isinstance(v, tuple) and len(v) == 3 and v[0] == "<exc>":
                    raise Raised(v[1], v[2])
                raise Raised("TypeError", ("exceptions must derive from BaseException",))
            if isinstance(e, ast.Name):
                raise Raised(e.id, ())
            raise Undecided("minieval: raise %s" % norm(e))
        if isinstance(st, ast.With) and len(st.items) == 1 and st.items[0].optional_vars is None and isinstance(st.items[0].context_expr, ast.Call) \
                and norm(st.items[0].context_expr.func) in ("contextlib.suppress", "suppress") and not st.items[0].context_expr.keywords:
            names = [norm(a) for a in st.items[0].context_expr.args]
            try:
                self.block(st.body, env)
            except Raised as r:
                if not (r.typ in names or any(nm in EXC_BASES.get(r.typ, ()) for nm in names) or (r.typ not in EXC_BASES and ("Exception" in names or "BaseException" in names))):
                    raise
            return
        if isinstance(st, ast.Try):
            try:
                try:
                    self.block(st.body, env)
                except Raised as r:
                    for h in st.handlers:
                        names = [norm(h.type)] if h.type is not None and not isinstance(h.type, ast.Tuple) else [norm(x) for x in h.type.elts] if h.type is not None else [None]
                        caught = any(nm is None or nm == r.typ or nm in ("BaseException",) or nm in EXC_BASES.get(r.typ, ()) for nm in names)
                        if r.typ not in EXC_BASES and not any(nm is None or nm == r.typ for nm in names):
                            if any(nm in ("Exception", "BaseException") for nm in names):
                                caught = True
                            elif caught is False:
                                pass
                        if caught:
                            if h.name:
                                env[h.name] = ("<exc>", r.typ, r.eargs)
                            old = env.get("<handling>")
                            env["<handling>"] = ("<exc>", r.typ, r.eargs)
                            try:
                                self.block(h.body, env)
                            finally:
                                env["<handling>"] = old
                            break
                    else:
                        raise
                else:
                    self.block(st.orelse, env)
            finally:
                if st.finalbody:
                    self.block(st.finalbody, env)
            return
        if isinstance(st, ast.Pass):
            return
        if isinstance(st, ast.Continue):
            raise _Continue()
        if isinstance(st, ast.Break):
            raise _Break()
        raise Undecided("minieval: statement %s" % type(st).__name__)

    def assign(self, t, v, env):
        if isinstance(t, ast.Name):
            env[t.id] = v
        elif isinstance(t, (ast.Tuple, ast.List)) and sum(isinstance(x, ast.Starred) for x in t.elts) == 1:
            vs = list(v)
            k = [i for i, x in enumerate(t.elts) if isinstance(x, ast.Starred)][0]
            after = len(t.elts) - k - 1
            if len(vs) < len(t.elts) - 1:
                raise Raised("ValueError", ("unpack",))
            for a, b in zip(t.elts[:k], vs[:k]):
                self.assign(a, b, env)
            self.assign(t.elts[k].value, vs[k:len(vs) - after], env)
            for a, b in zip(t.elts[k + 1:], vs[len(vs) - after:] if after else []):
                self.assign(a, b, env)
        elif isinstance(t, (ast.Tuple, ast.List)):
            vs = list(v)
            if len(vs) != len(t.elts):
                raise Raised("ValueError", ("unpack",))
            for a, b in zip(t.elts, vs):
                self.assign(a, b, env)
        elif isinstance(t, ast.Subscript):
            base = self.ev(t.value, env)
            if not isinstance(base, (list, dict)):
                raise Undecided("minieval: store into %s" % norm(t.value))
            base[self.ev(t.slice, env)] = v
        elif isinstance(t, ast.Attribute) and isinstance(t.value, ast.Name) and env.get(t.value.id) == ("<self>",):
            self.self_attrs[t.attr] = v           # the receiver's attributes are the evaluation's own state
        elif isinstance(t, ast.Attribute) and isinstance(self.ev(t.value, env), Rec):
            self.ev(t.value, env).attrs[t.attr] = v
        else:
            raise Undecided("minieval: assignment target %s" % norm(t))

    # ------------------------------------------------------------------ expressions

    def truth(self, v):
        if isinstance(v, tuple) and v and v[0] in ("<self>", "<sym>"):
            raise Undecided("minieval: truth value of a symbolic object")
        return bool(v)

    def binop(self, op, a, b, node):
        import operator as o
        table = {ast.Add: o.add, ast.Sub: o.sub, ast.Mult: o.mul, ast.Mod: o.mod, ast.FloorDiv: o.floordiv, ast.BitOr: o.or_, ast.BitAnd: o.and_,
                 ast.LShift: o.lshift, ast.RShift: o.rshift, ast.BitXor: o.xor, ast.Pow: o.pow}
        if type(op) not in table:
            raise Undecided("minieval: operator in %s" % norm(node))
        for x in (a, b):
            if isinstance(x, tuple) and x and x[0] in ("<self>", "<sym>"):
                raise Undecided("minieval: arithmetic on a symbolic object")
        try:
            return table[type(op)](a, b)
        except TypeError:
            raise Raised("TypeError", ())
        except ZeroDivisionError:
            raise Raised("ZeroDivisionError", ())

    def const_attr(self, e, env):
        """Class.NAME / self.NAME / module-level NAME that is bound to a constant expression"""
        if isinstance(e, ast.Attribute) and isinstance(e.value, ast.Name):
            ci = None
            if e.value.id in ("self", "cls") and self.fi.cls is not None:
                ci = self.fi.cls
            else:
                ci = self.fi.module.classes.get(e.value.id)
            if ci is not None:
                seen = [ci] + list(getattr(ci, "bases", []))
                for c in seen:
                    if e.attr in c.consts:
                        # (a class-body expression may name other class constants: the constant folder knows that scope)
                        try:
                            fv = self.folder.class_attr(c, e.attr)
                        except Exception:
                            fv = None
                        if isinstance(fv, (int, str, bytes, float)) and not isinstance(fv, bool):
                            return fv
                        sub = MiniEval(self.repo, self.folder, self.fi, self.symbolic, self.max_steps)
                        return sub.ev(c.consts[e.attr][-1], {})
        if isinstance(e, ast.Name) and e.id in self.fi.module.assigns:
            sub = MiniEval(self.repo, self.folder, self.fi, self.symbolic, self.max_steps)
            return sub.ev(self.fi.module.assigns[e.id][-1], {})
        if isinstance(e, ast.Name) and e.id in self.fi.module.funcs and not self.fi.module.funcs[e.id].is_lambda:
            return ("<pkgfn>", self.fi.module.funcs[e.id])
        raise Undecided("minieval: %s is not a constant" % norm(e))

    def ev(self, e, env):
        self.tick()
        if isinstance(e, ast.Constant):
            return e.value
        if isinstance(e, ast.Name):
            if e.id in env:
                return env[e.id]
            if e.id in ("True", "False", "None"):
                return {"True": True, "False": False, "None": None}[e.id]
            return self.const_attr(e, env)
        if isinstance(e, ast.JoinedStr):
            out = ""
            for v in e.values:
                if isinstance(v, ast.Constant):
                    out += v.value
                elif isinstance(v, ast.FormattedValue) and v.format_spec is None and v.conversion == -1:
                    out += str(self.ev(v.value, env))
                else:
                    raise Undecided("minieval: format spec")
            return out
        if isinstance(e, (ast.List, ast.Tuple, ast.Set)):
            vals = [self.ev(x, env) for x in e.elts]
            return vals if isinstance(e, ast.List) else tuple(vals) if isinstance(e, ast.Tuple) else set(vals)
        if isinstance(e, ast.Dict):
            return {self.ev(k, env): self.ev(v, env) for k, v in zip(e.keys, e.values)}
        if isinstance(e, ast.BinOp):
            if isinstance(e.op, ast.Mod) and isinstance(self.ev(e.left, env), str):
                try:
                    return self.ev(e.left, env) % self.ev(e.right, env)
                except TypeError:
                    raise Raised("TypeError", ())
            return self.binop(e.op, self.ev(e.left, env), self.ev(e.right, env), e)
        if isinstance(e, ast.UnaryOp):
            v = self.ev(e.operand, env)
            if isinstance(e.op, ast.Not):
                return not self.truth(v)
            if isinstance(e.op, ast.USub):
                return -v
            if isinstance(e.op, ast.UAdd):
                return +v
            raise Undecided("minieval: unary operator")
        if isinstance(e, ast.BoolOp):
            v = None
            for x in e.values:
                v = self.ev(x, env)
                if isinstance(e.op, ast.And) and not self.truth(v):
                    return v
                if isinstance(e.op, ast.Or) and self.truth(v):
                    return v
            return v
        if isinstance(e, ast.IfExp):
            return self.ev(e.body if self.truth(self.ev(e.test, env)) else e.orelse, env)
        if isinstance(e, ast.Compare):
            import operator as o
            ops = {ast.Eq: o.eq, ast.NotEq: o.ne, ast.Lt: o.lt, ast.LtE: o.le, ast.Gt: o.gt, ast.GtE: o.ge, ast.Is: o.is_, ast.IsNot: o.is_not,
                   ast.In: lambda a, b: a in b, ast.NotIn: lambda a, b: a not in b}
            left = self.ev(e.left, env)
            for op, r in zip(e.ops, e.comparators):
                right = self.ev(r, env)
                try:
                    if not ops[type(op)](left, right):
                        return False
                except TypeError:
                    raise Raised("TypeError", ())
                left = right
            return True
        if isinstance(e, ast.Subscript):
            base = self.ev(e.value, env)
            if isinstance(e.slice, ast.Slice):
                lo = self.ev(e.slice.lower, env) if e.slice.lower is not None else None
                hi = self.ev(e.slice.upper, env) if e.slice.upper is not None else None
                stp = self.ev(e.slice.step, env) if e.slice.step is not None else None
                return base[lo:hi:stp]
            k = self.ev(e.slice, env)
            try:
                return base[k]
            except KeyError:
                raise Raised("KeyError", (k,))
            except IndexError:
                raise Raised("IndexError", ())
            except TypeError:
                raise Undecided("minieval: subscript of %s" % norm(e.value))
        if isinstance(e, (ast.ListComp, ast.SetComp, ast.GeneratorExp, ast.DictComp)):
            def gen(i, env2, first=None):
                if i == len(e.generators):
                    if isinstance(e, ast.DictComp):
                        yield (self.ev(e.key, env2), self.ev(e.value, env2))
                    else:
                        yield self.ev(e.elt, env2)
                    return
                g = e.generators[i]
                it = first if i == 0 and first is not None else self.ev(g.iter, env2)
                if isinstance(it, dict):
                    it = list(it.keys())
                for x in (it if isinstance(it, _types.GeneratorType) else list(it)):
                    self.tick()
                    env3 = dict(env2)
                    self.assign(g.target, x, env3)
                    if all(self.truth(self.ev(c, env3)) for c in g.ifs):
                        yield from gen(i + 1, env3)
            if isinstance(e, ast.GeneratorExp):
                # a generator expression evaluates its outermost iterable at once and everything else when asked for a value:
                # what is evaluated, and in which order, is part of what the evaluated function does (a search that stops early)
                it0 = self.ev(e.generators[0].iter, env)
                return gen(0, dict(env), first=it0 if not isinstance(it0, dict) else list(it0.keys()))
            out = list(gen(0, dict(env)))
            if isinstance(e, ast.DictComp):
                return dict(out)
            return set(out) if isinstance(e, ast.SetComp) else out
        if isinstance(e, ast.Attribute):
            if norm(e) in PURE_FUNCS:
                return ("<fn>", norm(e))
            if isinstance(e.value, (ast.Name, ast.Attribute)) and not (isinstance(e.value, ast.Name) and e.value.id not in env):
                try:
                    b0 = self.ev(e.value, env)
                except Undecided:
                    b0 = None
                if isinstance(b0, Rec):
                    if e.attr in b0.attrs:
                        return b0.attrs[e.attr]
                    raise Raised("AttributeError", (e.attr,))
            if isinstance(e.value, ast.Name) and env.get(e.value.id) == ("<self>",) and e.attr in self.self_attrs:
                return self.self_attrs[e.attr]
            try:
                return self.const_attr(e, env)
            except Undecided:
                base = self.ev(e.value, env)
                return ("<method>", base, e.attr)
        if isinstance(e, ast.Call):
            return self.call_expr(e, env)
        raise Undecided("minieval: expression %s" % type(e).__name__)

    def call_expr(self, e, env):
        fn = norm(e.func)
        if isinstance(e.func, ast.Name) and e.func.id == "isinstance" and len(e.args) == 2 and "isinstance" not in env:
            kinds = {"bytes": bytes, "str": str, "int": int, "float": float, "list": list, "tuple": tuple, "dict": dict, "set": set, "bool": bool, "bytearray": bytearray}
            t_ = e.args[1]
            names = [x.id for x in t_.elts] if isinstance(t_, ast.Tuple) and all(isinstance(x, ast.Name) for x in t_.elts) else [t_.id] if isinstance(t_, ast.Name) else None
            if names is None or not all(nm in kinds for nm in names):
                raise Undecided("minieval: isinstance(%s)" % norm(t_))
            v_ = self.ev(e.args[0], env)
            if isinstance(v_, tuple) and v_ and v_[0] in ("<self>", "<sym>", "<exc>"):
                return False
            return isinstance(v_, tuple(kinds[nm] for nm in names))
        args = []
        for a in e.args:
            if isinstance(a, ast.Starred):
                sv = self.ev(a.value, env)
                if not isinstance(sv, (list, tuple, _types.GeneratorType)) or (isinstance(sv, tuple) and sv and isinstance(sv[0], str) and sv[0].startswith("<")):
                    raise Undecided("minieval: star arguments")
                args.extend(list(sv))
            else:
                args.append(self.ev(a, env))
        # a function of the package held in a name (a table of checkers, a helper): evaluated in its own frame, with the same stand-ins
        if isinstance(e.func, ast.Name) and fn not in self.stubs and fn not in self.stop_at and fn not in self.symbolic:
            fv = env.get(e.func.id) if e.func.id in env else (("<pkgfn>", self.fi.module.funcs[e.func.id]) if e.func.id in self.fi.module.funcs else None)
            if isinstance(fv, tuple) and len(fv) == 2 and fv[0] == "<pkgfn>" and [d_ for d_ in fv[1].decorators if d_ not in ("staticmethod",)]:
                # a decorator (a cache, a wrapper) is part of what the call does, and it is not evaluated here
                raise Undecided("minieval: call of the decorated function %s" % fv[1].qual)
            if isinstance(fv, tuple) and len(fv) == 2 and fv[0] == "<pkgfn>":
                kw = {k.arg: self.ev(k.value, env) for k in e.keywords if k.arg is not None}
                if kw or any(k.arg is None for k in e.keywords):
                    raise Undecided("minieval: keyword call of a package function")
                self.depth = getattr(self, "depth", 0)
                if self.depth > 6:
                    raise Undecided("minieval: call depth")
                sub = MiniEval(self.repo, self.folder, fv[1], self.symbolic, self.max_steps, stubs=self.stubs, stop_at=self.stop_at)
                sub.depth = self.depth + 1
                for nm in ("method_stubs", "symbolic_methods"):
                    if hasattr(self, nm):
                        setattr(sub, nm, getattr(self, nm))
                r = sub.call(args)
                if r[0] == "return":
                    return r[1]
                raise Raised(r[1], r[2])
        kwargs = {k.arg: self.ev(k.value, env) for k in e.keywords if k.arg is not None}
        if fn in self.stop_at:
            raise Stopped(fn, tuple(args), kwargs)
        if fn in self.stubs:
            return self.stubs[fn](*args, **kwargs)
        if fn in self.symbolic:
            return ("<sym>", fn, tuple(args), tuple(sorted(kwargs.items())))
        if fn in PURE_FUNCS:
            try:
                return PURE_FUNCS[fn](*args, **kwargs)
            except _struct.error as ex:
                raise Raised("struct.error", (str(ex),))
            except _binascii.Error as ex:
                raise Raised("binascii.Error", (str(ex),))
            except (TypeError, ValueError, OverflowError) as ex:
                raise Raised(type(ex).__name__, (str(ex),))
        if isinstance(e.func, ast.Name) and e.func.id == "type" and len(e.args) == 1 and "type" not in env:
            return ("<type>", type(args[0]).__name__)
        if isinstance(e.func, ast.Name) and e.func.id == "str" and len(args) == 1 and isinstance(args[0], tuple) and args[0] and args[0][0] == "<exc>":
            return str(args[0][2][0]) if args[0][2] else ""
        if isinstance(e.func, ast.Name) and e.func.id == "next" and "next" not in env and 1 <= len(args) <= 2 and not kwargs and isinstance(args[0], _types.GeneratorType):
            try:
                return next(args[0])
            except StopIteration:
                if len(args) == 2:
                    return args[1]
                raise Raised("StopIteration", ())
        if isinstance(e.func, ast.Name) and e.func.id in PURE_BUILTINS and e.func.id not in env:
            try:
                r = PURE_BUILTINS[e.func.id](*args, **kwargs)
            except (TypeError, ValueError) as ex:
                raise Raised(type(ex).__name__, ())
            return list(r) if e.func.id in ("range", "enumerate", "zip", "reversed") else r
        if isinstance(e.func, ast.Name) and e.func.id in EXC_NAMES:
            return ("<exc>", e.func.id, tuple(args))
        if isinstance(e.func, ast.Attribute):
            base = self.ev(e.func.value, env)
            if isinstance(base, Obj):
                if e.func.attr in getattr(self, "method_stubs", {}):
                    return self.method_stubs[e.func.attr](base, *args, **kwargs)
                raise Undecided("minieval: method %s of a stand-in object" % e.func.attr)
            if isinstance(base, tuple) and base and base[0] == "<sym>" and e.func.attr in getattr(self, "method_stubs", {}):
                return self.method_stubs[e.func.attr](base, *args, **kwargs)
            if isinstance(base, tuple) and base and base[0] == "<sym>" and getattr(self, "symbolic_methods", False):
                return ("<sym>", "%s.%s" % (base[1], e.func.attr), tuple(args), tuple(sorted(kwargs.items())))
            for typ, names in PURE_METHODS.items():
                if isinstance(base, typ) and not (typ is tuple and base and base[0] in ("<self>", "<sym>", "<fn>", "<method>")) and e.func.attr in names:
                    try:
                        r = getattr(base, e.func.attr)(*args, **kwargs)
                    except KeyError as ex:
                        raise Raised("KeyError", ex.args)
                    except (UnicodeEncodeError, UnicodeDecodeError) as ex:
                        raise Raised(type(ex).__name__, (str(ex),))
                    except (IndexError, ValueError, TypeError) as ex:
                        raise Raised(type(ex).__name__, ())
                    if e.func.attr in ("keys", "values", "items"):
                        return list(r)
                    return r
        raise Undecided("minieval: call of %s" % fn)


def _load(t):
    new = ast.parse(ast.unparse(t), mode="eval").body
    return new
