"""Reference names: translation of renamed locals / parameters back to the names the rules were written against.

The rules identify constructs by structure (dominance, def-use, call targets) but many of their *reports and text
comparisons* mention local variable names.  A refactoring that renames a local is behaviour-preserving and must not change
a verdict.  /verif/rules/refnames.json records, for every function of the analysed modules, each local's *abstract first
binding* - the text of the statement that first binds it, with every local name replaced by `_` - and each parameter's
position.  When the current tree is indexed, a local whose abstract first binding matches a recorded one (uniquely, or in the
same order among equal ones) but whose name differs is renamed *in the in-memory AST only* to the recorded name (the original
is kept in node._orig_id).  The table is used for translation only, never for a verdict: a function that was really edited
simply keeps its own names where nothing matches."""
import ast
import json
import os

from .index import walk_own

HERE = os.path.dirname(os.path.dirname(os.path.abspath(__file__)))
REF_PATH = os.path.join(HERE, "rules", "refnames.json")


def _bound_names(fnode):
    """local names bound in the function's own body, in order of first binding, with the binding statement"""
    order = []
    seen = set()
    params = set()
    a = fnode.args
    for x in a.posonlyargs + a.args + a.kwonlyargs:
        params.add(x.arg)
    if a.vararg:
        params.add(a.vararg.arg)
    if a.kwarg:
        params.add(a.kwarg.arg)
    glob = set()
    for n in walk_own(fnode):
        if isinstance(n, (ast.Global, ast.Nonlocal)):
            glob |= set(n.names)
    comp_bound = set()
    for n in walk_own(fnode):
        if isinstance(n, (ast.ListComp, ast.SetComp, ast.DictComp, ast.GeneratorExp)):
            for g in n.generators:
                for t in ast.walk(g.target):
                    if isinstance(t, ast.Name):
                        comp_bound.add(id(t))
        if isinstance(n, ast.Lambda):
            pass
    for n in walk_own(fnode):
        stores = []
        if isinstance(n, ast.Name) and isinstance(n.ctx, ast.Store) and id(n) not in comp_bound:
            stores.append((n.id, n))
        elif isinstance(n, ast.ExceptHandler) and n.name:
            stores.append((n.name, n))
        for (name, node) in stores:
            if name in params or name in glob or name in seen:
                continue
            seen.add(name)
            st = node
            while st is not None and not isinstance(st, (ast.stmt, ast.ExceptHandler)):
                st = getattr(st, "_parent", None)
            order.append((name, st))
    return order, params


def _nested_uses(fnode):
    """names referenced inside nested function definitions (closures): excluded from renaming"""
    out = set()
    for n in walk_own(fnode):
        for c in ast.iter_child_nodes(n):
            if isinstance(c, (ast.FunctionDef, ast.AsyncFunctionDef, ast.ClassDef)):
                for x in ast.walk(c):
                    if isinstance(x, ast.Name):
                        out.add(x.id)
    for c in fnode.body:
        if isinstance(c, (ast.FunctionDef, ast.AsyncFunctionDef, ast.ClassDef)):
            for x in ast.walk(c):
                if isinstance(x, ast.Name):
                    out.add(x.id)
    return out


class _Abstract(ast.NodeTransformer):
    def __init__(self, locals_):
        self.locals = locals_

    def visit_Name(self, node):
        if node.id in self.locals:
            return ast.copy_location(ast.Name(id="_", ctx=node.ctx), node)
        return node

    def visit_ExceptHandler(self, node):
        self.generic_visit(node)
        if node.name in self.locals:
            node.name = "_"
        return node

    def _comp(self, node):
        # names bound by the comprehension itself are its own scope: canonical names c0, c1, ... (never the function's locals)
        bound = []
        for g in node.generators:
            for t in ast.walk(g.target):
                if isinstance(t, ast.Name) and t.id not in bound:
                    bound.append(t.id)
        saved = self.locals
        self.locals = set(saved) - set(bound)
        ren = {b: "c%d" % i for i, b in enumerate(bound)}
        self.generic_visit(node)
        for x in ast.walk(node):
            if isinstance(x, ast.Name) and x.id in ren:
                x.id = ren[x.id]
        self.locals = saved
        return node

    visit_ListComp = visit_SetComp = visit_DictComp = visit_GeneratorExp = _comp


def _abstract_text(st, locals_, name):
    """text of the binding statement's *header* with locals abstracted, plus the position of `name` among its stores"""
    if st is None:
        return "?"
    # header only: for compound statements take the part that binds
    if isinstance(st, (ast.For, ast.AsyncFor)):
        hdr = ast.Tuple(elts=[st.target, st.iter], ctx=ast.Load())
    elif isinstance(st, (ast.With, ast.AsyncWith)):
        hdr = ast.Tuple(elts=[i.context_expr for i in st.items] + [i.optional_vars for i in st.items if i.optional_vars is not None], ctx=ast.Load())
    elif isinstance(st, ast.ExceptHandler):
        hdr = st.type if st.type is not None else ast.Constant(value="except")
        pos = 0
        clone = ast.parse(ast.unparse(hdr), mode="eval").body
        return "except %s as _#0" % ast.unparse(_Abstract(locals_).visit(clone))
    else:
        hdr = st
    stores = [n.id for n in ast.walk(hdr) if isinstance(n, ast.Name) and isinstance(n.ctx, ast.Store)]
    pos = stores.index(name) if name in stores else -1
    try:
        src = ast.unparse(hdr)
        clone = ast.parse(src).body[0] if isinstance(hdr, ast.stmt) else ast.parse(src, mode="eval").body
    except Exception:
        return "?"
    text = ast.unparse(_Abstract(locals_).visit(clone))
    return "%s#%d" % (text, pos)


def describe(fnode):
    order, params = _bound_names(fnode)
    locals_ = {n for n, _ in order}
    a = fnode.args
    plist = [x.arg for x in a.posonlyargs + a.args] + ([a.vararg.arg] if a.vararg else []) + [x.arg for x in a.kwonlyargs] + ([a.kwarg.arg] if a.kwarg else [])
    return {"params": plist, "locals": [[n, _abstract_text(st, locals_, n)] for (n, st) in order]}


def build_reference(repo, modules):
    ref = {}
    for q, fi in repo.funcs.items():
        if fi.module.name in modules and not fi.is_lambda:
            ref[q] = describe(fi.node)
            ref[q].update(describe_tests(fi.node))
            ref[q]["digest"] = _digest(fi.node)
    return ref


def _digest(fnode):
    import hashlib
    return hashlib.sha1(ast.dump(fnode).encode()).hexdigest()[:16]


def load_reference():
    try:
        with open(REF_PATH) as f:
            return json.load(f)
    except Exception:
        return {}


def _rename_towards_reference(repo, ref):
    """rename parameters (by position) and locals (by abstract first binding) to the reference names"""
    renamed = {}
    for q, fi in repo.funcs.items():
        if fi.is_lambda or q not in ref:
            continue
        cur = describe(fi.node)
        r = ref[q]
        mapping = {}
        # parameters: positional, same arity
        if len(cur["params"]) == len(r["params"]):
            for a, b in zip(cur["params"], r["params"]):
                if a != b:
                    mapping[a] = b
        # locals: by abstract first binding, k-th occurrence to k-th occurrence
        from collections import defaultdict
        ck, rk = defaultdict(list), defaultdict(list)
        for n, t in cur["locals"]:
            ck[t].append(n)
        for n, t in r["locals"]:
            rk[t].append(n)
        nested = _nested_uses(fi.node)
        for t, names in ck.items():
            if t in rk and len(rk[t]) == len(names):
                # names that exist on both sides keep their name (a reordering of the bindings is not a renaming);
                # the others are matched in order
                same = set(names) & set(rk[t])
                for a, b in zip([n for n in names if n not in same], [n for n in rk[t] if n not in same]):
                    if a != b and a not in nested:
                        mapping[a] = b
        # never merge two names or capture an existing one
        cur_names = set(cur["params"]) | {n for n, _ in cur["locals"]}
        targets = list(mapping.values())
        mapping = {a: b for a, b in mapping.items() if targets.count(b) == 1 and (b not in cur_names or b in mapping)}
        if not mapping:
            continue
        renamed[q] = dict(mapping)
        _rename(fi.node, mapping)
    return renamed


def expand_module_updates(tree):
    """D.update({k1: v1, k2: v2}) as a statement at module level, D a module-level name, keys and values names / attribute chains
    / constants: the stores D[k1] = v1; D[k2] = v2 in that order (what update does with a dictionary display).  In memory only."""
    n = 0
    top = {t.id for st in tree.body if isinstance(st, ast.Assign) for t in st.targets if isinstance(t, ast.Name)}

    def plain(e):
        return isinstance(e, (ast.Name, ast.Constant)) or _chain(e) is not None
    i = 0
    while i < len(tree.body):
        st = tree.body[i]
        i += 1
        c = st.value if isinstance(st, ast.Expr) else None
        if not (isinstance(c, ast.Call) and isinstance(c.func, ast.Attribute) and c.func.attr == "update" and isinstance(c.func.value, ast.Name) and c.func.value.id in top
                and len(c.args) == 1 and not c.keywords and isinstance(c.args[0], ast.Dict) and c.args[0].keys and all(k is not None and plain(k) for k in c.args[0].keys)
                and all(plain(v) for v in c.args[0].values)):
            continue
        new = []
        for k, v in zip(c.args[0].keys, c.args[0].values):
            a_ = ast.parse("%s[%s] = %s" % (c.func.value.id, ast.unparse(k), ast.unparse(v))).body[0]
            for y in ast.walk(a_):
                ast.copy_location(y, st)
            new.append(a_)
        tree.body[i - 1:i] = new
        i += len(new) - 1
        n += 1
    return n


def specialise_factories(tree):
    """NAME = factory(<constants>) at module level, where `factory` is a module-level function whose body is side-effect free
    bindings followed by one inner function (def or lambda) that it returns, becomes `def NAME(...)`: the inner function with the
    factory's parameters and bindings put in place (a struct.Struct(<format>) binding becomes struct.pack / unpack / calcsize of
    the format, the size a number).  Eleven readers built by one closure factory are eleven functions again.  In memory only."""
    import struct as _struct
    factories = {}
    for st in tree.body:
        if isinstance(st, ast.FunctionDef) and not st.decorator_list and not st.args.vararg and not st.args.kwarg and not st.args.kwonlyargs:
            body = [x for x in st.body if not (isinstance(x, ast.Expr) and isinstance(x.value, ast.Constant))]
            if len(body) < 2 or not isinstance(body[-1], ast.Return):
                continue
            inner = None
            pre = body[:-1]
            ret = body[-1].value
            if isinstance(ret, ast.Lambda):
                inner = ret
            elif isinstance(ret, ast.Name) and isinstance(pre[-1], ast.FunctionDef) and pre[-1].name == ret.id and not pre[-1].decorator_list:
                inner = pre[-1]
                pre = pre[:-1]
            if inner is None:
                continue
            if not all(isinstance(x, ast.Assign) and len(x.targets) == 1 and isinstance(x.targets[0], ast.Name) for x in pre):
                continue
            bound = [x.targets[0].id for x in pre]
            if len(set(bound)) != len(bound):
                continue
            # the inner function only reads what the factory bound
            inner_stores = {x.id for x in ast.walk(inner) if isinstance(x, ast.Name) and isinstance(x.ctx, (ast.Store, ast.Del))} | \
                {a_.arg for a_ in inner.args.args + inner.args.kwonlyargs + ([inner.args.vararg] if inner.args.vararg else []) + ([inner.args.kwarg] if inner.args.kwarg else [])}
            params = [a_.arg for a_ in st.args.args]
            if inner_stores & (set(bound) | set(params)):
                continue
            if any(isinstance(x, (ast.Nonlocal, ast.Global, ast.Yield, ast.YieldFrom, ast.Await)) for x in ast.walk(inner)):
                continue
            factories[st.name] = (st, params, pre, inner)
    if not factories:
        return 0
    n = 0
    for i, st in enumerate(list(tree.body)):
        if not (isinstance(st, ast.Assign) and len(st.targets) == 1 and isinstance(st.targets[0], ast.Name) and isinstance(st.value, ast.Call)
                and isinstance(st.value.func, ast.Name) and st.value.func.id in factories and not st.value.keywords):
            continue
        fdef, params, pre, inner = factories[st.value.func.id]
        if len(st.value.args) != len(params) or not all(isinstance(a_, ast.Constant) for a_ in st.value.args):
            continue
        env = {p_: ast.unparse(a_) for p_, a_ in zip(params, st.value.args)}      # name -> expression text
        structs = {}                                                              # name -> format
        ok = True
        for b_ in pre:
            v = ast.parse(ast.unparse(b_.value), mode="eval").body
            v = _SubstNames({k: "(%s)" % t for k, t in env.items()}).visit(v)
            ast.fix_missing_locations(v)
            if isinstance(v, ast.Call) and ast.unparse(v.func) in ("struct.Struct", "Struct") and len(v.args) == 1 and isinstance(v.args[0], ast.Constant) and isinstance(v.args[0].value, str):
                structs[b_.targets[0].id] = v.args[0].value
            elif isinstance(v, ast.Attribute) and v.attr == "size" and isinstance(v.value, ast.Name) and v.value.id in structs:
                env[b_.targets[0].id] = repr(_struct.calcsize(structs[v.value.id]))
            elif isinstance(v, ast.Constant) or (isinstance(v, (ast.BinOp, ast.UnaryOp, ast.Tuple)) and all(isinstance(x, (ast.Constant, ast.BinOp, ast.UnaryOp, ast.Tuple, ast.operator,
                                                                                                              ast.unaryop, ast.expr_context)) for x in ast.walk(v))):
                env[b_.targets[0].id] = ast.unparse(v)
            else:
                ok = False
        if not ok:
            continue
        body_src = ast.unparse(inner.body) if isinstance(inner, ast.Lambda) else "\n".join(ast.unparse(x) for x in inner.body)
        if isinstance(inner, ast.Lambda):
            body_src = "return " + body_src
        new = ast.parse("def %s(%s):\n%s" % (st.targets[0].id, ast.unparse(inner.args), "\n".join("    " + l for l in body_src.splitlines()))).body[0]
        new = _SubstNames({k: "(%s)" % t for k, t in env.items()}).visit(new)
        ast.fix_missing_locations(new)
        new = ast.parse(ast.unparse(new)).body[0]
        for x in ast.walk(new):
            for c in ast.iter_child_nodes(x):
                c._parent = x
        # struct objects of the factory
        for x in [y for y in ast.walk(new) if isinstance(y, ast.Attribute) and isinstance(y.value, ast.Name) and y.value.id in structs]:
            fmt = structs[x.value.id]
            par = getattr(x, "_parent", None)
            if x.attr == "size":
                rep = ast.Constant(value=_struct.calcsize(fmt))
                _replace_child(par, x, rep)
                rep._parent = par
            elif x.attr in ("pack", "unpack", "unpack_from", "pack_into", "iter_unpack") and isinstance(par, ast.Call) and par.func is x:
                rep = ast.parse("struct.%s(%r)" % (x.attr, fmt), mode="eval").body
                rep.args += par.args
                rep.keywords = par.keywords
                gp = getattr(par, "_parent", None)
                _replace_child(gp, par, rep)
                rep._parent = gp
        new = ast.parse(ast.unparse(new)).body[0]
        # `v, = struct.unpack(<format of one value>, d)` is `v = struct.unpack(<format>, d)[0]`: the tuple has exactly one element
        for x in new.body:
            if isinstance(x, ast.Assign) and len(x.targets) == 1 and isinstance(x.targets[0], (ast.Tuple, ast.List)) and len(x.targets[0].elts) == 1 \
                    and isinstance(x.targets[0].elts[0], ast.Name) and isinstance(x.value, ast.Call) and ast.unparse(x.value.func) == "struct.unpack" \
                    and x.value.args and isinstance(x.value.args[0], ast.Constant) and isinstance(x.value.args[0].value, str):
                try:
                    count = len(_struct.unpack(x.value.args[0].value, bytes(_struct.calcsize(x.value.args[0].value))))
                except _struct.error:
                    continue
                if count == 1:
                    x.targets[0] = x.targets[0].elts[0]
                    x.value = ast.Subscript(value=x.value, slice=ast.Constant(value=0), ctx=ast.Load())
        ast.fix_missing_locations(new)
        new = ast.parse(ast.unparse(new)).body[0]
        # a single-use temporary in front of the return
        if len(new.body) == 2 and isinstance(new.body[0], ast.Assign) and len(new.body[0].targets) == 1 and isinstance(new.body[0].targets[0], ast.Name) and isinstance(new.body[1], ast.Return):
            t = new.body[0].targets[0].id
            uses = [x for x in ast.walk(new.body[1]) if isinstance(x, ast.Name) and x.id == t]
            if len(uses) == 1 and not any(isinstance(x, ast.Name) and x.id == t for x in ast.walk(new.body[0].value)):
                src_ = ast.unparse(_SubstNames({t: "(%s)" % ast.unparse(new.body[0].value)}).visit(new.body[1]))
                new.body = ast.parse(src_).body
        new = ast.parse(ast.unparse(new)).body[0]
        for x in ast.walk(new):
            ast.copy_location(x, st)
        idx = [k for k, y in enumerate(tree.body) if y is st][0]
        tree.body[idx] = new
        n += 1
    return n


def apply_reference(repo):
    """rename locals / parameters of the in-memory ASTs to the reference names where the structure matches"""
    ref = load_reference()
    full_ref = ref
    repo.local_buffers = local_buffers(repo, None) if full_ref else {}
    try:
        repo.inlined_helpers = inline_new_helpers(repo, full_ref) if full_ref else {}
    except RecursionError:
        repo.inlined_helpers = {}
    repo.scalarized = scalarize_records(repo, full_ref) if full_ref else {}
    # a function whose tree is identical to the reference needs no translation
    ref = {q: r for q, r in ref.items() if q in repo.funcs and not repo.funcs[q].is_lambda and r.get("digest") != _digest(repo.funcs[q].node)}
    for q in list(repo.inlined_helpers):
        if q in repo.funcs:
            _merge_renamed_locals(repo.funcs[q])
            _drop_self_assignments(repo.funcs[q].node)
            _thread_none_tests(repo.funcs[q].node)
    repo.inlined_local_functions = inline_local_functions(repo, ref)
    repo.stdlib_equivalents = stdlib_equivalents(repo, ref)
    repo.counted_loops = counted_loops(repo, ref)
    repo.suppress_forms = suppress_to_try(repo, ref)
    repo.records = expand_records(repo, ref)
    repo.struct_objects = expand_struct_objects(repo, ref)
    repo.merged_packs = merge_adjacent_packs(repo, ref)
    repo.star_forms = expand_star_forms(repo, ref)
    repo.unrolled_tables = unroll_constant_tables(repo, ref)
    repo.sentinel_getattrs = sentinel_getattr_guards(repo, ref)
    repo.dict_get_guards = dict_get_guards(repo, ref)
    repo.dict_gets = dict_get_to_membership(repo, ref)
    renamed = _rename_towards_reference(repo, ref)
    repo.restructured = {}
    for q, fi in repo.funcs.items():
        if fi.is_lambda or q not in ref:
            continue
        ref_locals = {n for n, _ in ref[q]["locals"]} | set(ref[q]["params"])
        n = _split_tuple_assignments(fi.node, ref_locals) + _split_chained_assignments(fi.node)
        for _round in range(4):         # (if / elif / else chains of one flag: innermost pair first)
            k_ = _assignments_to_ifexp(fi.node, ref[q], ref_locals)
            n += k_
            if not k_:
                break
        n += _extend_displays(fi.node) + _boolean_returns(fi.node, ref[q])
        n += _increment_through_temp(fi.node, ref_locals) + _ifexp_assignments(fi.node, ref_locals)
        _thread_none_tests(fi.node)
        n += _tail_duplicate(fi.node, ref_locals)
        if n:
            repo.restructured[q] = n
    repo.reverse_aliases = reverse_attribute_aliases(repo, ref)
    try:
        inl = inline_new_aliases(repo, ref)
    except RecursionError:
        inl = {}
    repo.inlined_aliases = inl
    # lookups through an alias (ctxt = self.ctxt; ctxt.pool.get(k)) are recognisable only now
    for q_, v_ in dict_get_guards(repo, ref).items():
        repo.dict_get_guards.setdefault(q_, []).extend(v_)
    for q_, v_ in dict_get_to_membership(repo, ref).items():
        repo.dict_gets.setdefault(q_, []).extend(v_)
    repo.propagated_constants = propagate_new_constants(repo, ref) if not os.environ.get("VERIF_NO_FOLD_TEMPS") else {}
    repo.folded_temporaries = inline_new_temporaries(repo, ref) if not os.environ.get("VERIF_NO_FOLD_TEMPS") else {}
    for q_ in repo.folded_temporaries:
        if q_ in repo.funcs:
            _simplify_bool_contexts(repo.funcs[q_].node)       # a folded flag brings its conditional expression into the test
    # temporaries folded and aliases removed may have made more first bindings comparable
    for q_, m_ in _rename_towards_reference(repo, ref).items():
        renamed.setdefault(q_, {}).update(m_)
    repo.respelled = respell(repo, ref)
    repo.positional = positional_calls(repo, ref)
    _clear_analysis_caches()
    return renamed


def _rename(fnode, mapping):
    a = fnode.args
    for x in a.posonlyargs + a.args + a.kwonlyargs + ([a.vararg] if a.vararg else []) + ([a.kwarg] if a.kwarg else []):
        if x.arg in mapping:
            x._orig_arg = x.arg
            x.arg = mapping[x.arg]
    lam_params = []

    def walk(n, shadow):
        for c in ast.iter_child_nodes(n):
            if isinstance(c, (ast.FunctionDef, ast.AsyncFunctionDef, ast.ClassDef)):
                continue
            sh = shadow
            if isinstance(c, ast.Lambda):
                ps = {y.arg for y in c.args.posonlyargs + c.args.args + c.args.kwonlyargs}
                # defaults are evaluated in the enclosing scope
                for d in c.args.defaults + [k for k in c.args.kw_defaults if k is not None]:
                    walk_node(d, shadow)
                walk_node(c.body, shadow | ps)
                continue
            if isinstance(c, (ast.ListComp, ast.SetComp, ast.DictComp, ast.GeneratorExp)):
                bound = set()
                for g in c.generators:
                    for t in ast.walk(g.target):
                        if isinstance(t, ast.Name):
                            bound.add(t.id)
                sh = shadow | bound
            walk_node(c, sh)

    def walk_node(c, shadow):
        if isinstance(c, ast.Name) and c.id in mapping and c.id not in shadow:
            c._orig_id = c.id
            c.id = mapping[c.id]
            _invalidate(c)
        if isinstance(c, ast.ExceptHandler) and c.name in mapping and c.name not in shadow:
            c._orig_name = c.name
            c.name = mapping[c.name]
        walk(c, shadow)
    for st in fnode.body:
        walk_node(st, set())


# ----------------------------------------------------------------------------------------------------------------------
# new single-definition aliases of attribute chains (`blocked = self.ctxt.blocklist`) are inlined in the in-memory AST

def _chain(expr):
    """attribute chain rooted at a Name -> [root, attr1, ...] else None"""
    out = []
    while isinstance(expr, ast.Attribute):
        out.append(expr.attr)
        expr = expr.value
    if isinstance(expr, ast.Name):
        out.append(expr.id)
        return list(reversed(out))
    return None


def _attr_writers(repo):
    """attribute name -> {qualified names of functions that store it}, syntactic and package-wide"""
    w = {}
    for q, fi in repo.funcs.items():
        if fi.is_lambda:
            continue
        for n in walk_own(fi.node):
            if isinstance(n, ast.Attribute) and isinstance(n.ctx, (ast.Store, ast.Del)):
                w.setdefault(n.attr, set()).add(q)
            elif isinstance(n, ast.Call) and isinstance(n.func, ast.Name) and n.func.id in ("setattr", "delattr") and len(n.args) >= 2:
                a = n.args[1]
                w.setdefault(a.value if isinstance(a, ast.Constant) and isinstance(a.value, str) else "*", set()).add(q)
    return w


def _block_of(st):
    p = getattr(st, "_parent", None)
    if p is None:
        return None, -1
    for f in ("body", "orelse", "finalbody"):
        blk = getattr(p, f, None)
        if isinstance(blk, list) and st in blk:
            return blk, blk.index(st)
    return None, -1


def _replace_child(parent, old, new):
    for f, v in ast.iter_fields(parent):
        if v is old:
            setattr(parent, f, new)
            return True
        if isinstance(v, list):
            for i, x in enumerate(v):
                if x is old:
                    v[i] = new
                    return True
    return False


def reverse_attribute_aliases(repo, ref):
    """self.X = L  for a new local L: from there on L and self.X are the same object, so the later reads of L are reads of self.X
    - as long as neither is bound again: no store to L or to an attribute named X later in the function, and no call after the
    statement reaches a function that stores an attribute X (call graph).  The mirror image of inline_new_aliases."""
    done = {}
    writers = None
    cg = None
    for q, fi in repo.funcs.items():
        if fi.is_lambda or q not in ref:
            continue
        ref_locals = {n for n, _ in ref[q]["locals"]} | set(ref[q]["params"])
        nested = _nested_uses(fi.node)
        for owner, field, blk in _blocks(fi.node):
            for i, st in enumerate(blk):
                if not (isinstance(st, ast.Assign) and len(st.targets) == 1 and isinstance(st.value, ast.Name) and isinstance(st.targets[0], ast.Attribute)):
                    continue
                ch = _chain(st.targets[0])
                L = st.value.id
                if ch is None or len(ch) != 2 or L in ref_locals or L in nested or L in fi.params:
                    continue
                R = ch[0]
                if R != "self":
                    # another receiver: a name of the function that is bound once (a parameter, or a local with one binding in
                    # front of the statement) and not captured by a nested scope
                    rb = [x for x in walk_own(fi.node) if isinstance(x, ast.Name) and x.id == R and isinstance(x.ctx, (ast.Store, ast.Del))]
                    if R in nested or R == L or not ((R in fi.params and not rb) or (R not in fi.params and len(rb) == 1 and _pos(rb[0]) < _pos(st))):
                        continue
                X = ch[1]
                # a local that is itself an alias of an attribute chain (salt = msg.salt) is put back by inline_new_aliases instead
                binds = [x for x in walk_own(fi.node) if isinstance(x, ast.Name) and x.id == L and isinstance(x.ctx, ast.Store)]
                if any(isinstance(getattr(b_, "_parent", None), ast.Assign) and _chain(b_._parent.value) is not None and b_._parent.targets[0] is b_ for b_ in binds):
                    continue
                later = [x for s_ in blk[i + 1:] for x in ast.walk(s_)]
                later_ids = {id(x) for x in later}
                loads = [x for x in later if isinstance(x, ast.Name) and x.id == L and isinstance(x.ctx, ast.Load)]
                if not loads:
                    continue
                # every load of L after the statement is in the rest of this block (none elsewhere that the statement could reach: loops)
                if any(isinstance(a_, (ast.For, ast.While)) for a_ in _ancestors(st, fi.node)):
                    continue
                inside_st = {id(x) for x in ast.walk(st)}
                all_after = [x for x in walk_own(fi.node) if isinstance(x, ast.Name) and x.id == L and _pos(x) > _pos(st) and id(x) not in inside_st]
                if any(id(x) not in later_ids for x in all_after):
                    continue
                if any(isinstance(x.ctx, (ast.Store, ast.Del)) for x in all_after):
                    continue
                if any(isinstance(x, ast.Attribute) and x.attr == X and isinstance(x.ctx, (ast.Store, ast.Del)) for x in later):
                    continue
                if any(isinstance(x, ast.Lambda) for x in later if any(y is l_ for l_ in loads for y in ast.walk(x))):
                    continue
                if writers is None:
                    writers = _attr_writers(repo)
                bad_fns = set(writers.get(X, set())) - {q}
                calls = [c for c in later if isinstance(c, ast.Call)]
                if calls and bad_fns:
                    if cg is None:
                        from .callgraph import CallGraph
                        cg = CallGraph(repo)
                    direct = {e.callee.qual for e in cg.callees(q) if any(e.call is c for c in calls)}
                    reach = (set(cg.reachable(sorted(direct))) | direct) if direct else set()
                    if reach & bad_fns:
                        continue
                for x in loads:
                    _install(x, ast.parse("%s.%s" % (R, X), mode="eval").body)
                done.setdefault(q, []).append(L)
    if done:
        _clear_analysis_caches()
    return done


def inline_new_aliases(repo, ref):
    """A local that does not exist in the reference version of a function, is bound exactly once by `x = <attribute chain>`
    and is only read afterwards, is an alias introduced by a refactoring.  Its reads are replaced (in memory) by the chain,
    so that rules see the same access paths as before.  The replacement is made only when it preserves the meaning:
    the binding statement precedes every read in the same block, no statement of the function stores an attribute of the
    chain or rebinds its root, and no function reachable from a call that executes between the binding and a read stores
    such an attribute (call graph, over-approximated)."""
    inlined = {}
    writers = None
    cg = None
    for q, fi in repo.funcs.items():
        if fi.is_lambda or q not in ref:
            continue
        ref_locals = {n for n, _ in ref[q]["locals"]} | set(ref[q]["params"])
        order, params = _bound_names(fi.node)
        nested = _nested_uses(fi.node)
        for name, st in order:
            if name in ref_locals or name in nested:
                continue
            if not (isinstance(st, ast.Assign) and len(st.targets) == 1 and isinstance(st.targets[0], ast.Name)):
                continue
            ch = _chain(st.value)
            chains = [ch] if ch is not None else _pure_chain_expr(st.value)
            if not chains:
                continue
            if ch is not None and len(ch) < 2 and ch[0] in ("self", "cls"):
                continue
            stores = [n for n in walk_own(fi.node) if isinstance(n, ast.Name) and n.id == name and isinstance(n.ctx, (ast.Store, ast.Del))]
            twins = []
            if len(stores) != 1:
                # the same alias bound again to the same chain in the same block (two inlined helpers that each had it):
                # every read still sees that chain, under the same stability conditions, taken from the first binding on
                blk0, idx0 = _block_of(st)
                ok_tw = blk0 is not None and ch is not None
                for sn in stores:
                    ps = getattr(sn, "_parent", None)
                    if ps is st:
                        continue
                    if not (isinstance(ps, ast.Assign) and len(ps.targets) == 1 and ps.targets[0] is sn and ast.unparse(ps.value) == ast.unparse(st.value)
                            and blk0 is not None and any(ps is x for x in blk0) and blk0.index(ps) > idx0):
                        ok_tw = False
                        break
                    twins.append(ps)
                if not ok_tw:
                    continue
            loads = [n for n in walk_own(fi.node) if isinstance(n, ast.Name) and n.id == name and isinstance(n.ctx, ast.Load)]
            if not loads:
                continue
            if any(isinstance(getattr(x, "_parent", None), ast.Lambda) or _inside(x, (ast.Lambda,), fi.node) for x in loads):
                continue
            blk, idx = _block_of(st)
            if blk is None:
                continue
            later = set()
            for s in blk[idx + 1:]:
                for x in ast.walk(s):
                    later.add(id(x))
            if not all(id(x) in later for x in loads):
                continue
            last = max(i for i, s in enumerate(blk) if i > idx and any(id(x) in {id(y) for y in ast.walk(s)} for x in loads))
            ok_all = True
            for ch in chains:
              for _once in (1,):
                ok_all = False
                root, attrs = ch[0], set(ch[1:])
                if root == name:
                    continue
                # the root is not rebound and no attribute of the chain is stored in this function
                root_stores = [n for n in walk_own(fi.node) if isinstance(n, ast.Name) and n.id == root and isinstance(n.ctx, (ast.Store, ast.Del))]
                if root_stores:
                    def _loop_of(n):
                        for a_ in _ancestors(n, fi.node):
                            if isinstance(a_, (ast.For, ast.While, ast.AsyncFor)):
                                return a_
                        return None
                    lp = _loop_of(st)
                    # the root is rebound only before the binding, and - inside a loop - only in the same iteration of the same loop
                    if any(_pos(n) >= _pos(st) for n in root_stores if not (lp is not None and n is getattr(lp, "target", None))) \
                            or any(_loop_of(n) is not lp and not (lp is not None and any(n is x for x in ast.walk(getattr(lp, "target", None) or ast.Pass()))) for n in root_stores if lp is not None) \
                            or (lp is None and any(_loop_of(n) is not None for n in root_stores)):
                        continue
                    if len(ch) == 1 and any(isinstance(getattr(n, "_parent", None), (ast.AugAssign,)) for n in root_stores):
                        continue
                if writers is None:
                    writers = _attr_writers(repo)
                if q in writers.get("*", ()) and len(ch) > 1:
                    continue
                if any(q in writers.get(a, ()) for a in attrs):
                    # the function itself stores an attribute of the chain: harmless only when every such store is executed before
                    # the binding and never again (it precedes the binding in the text and neither is inside a loop)
                    own = [n for n in walk_own(fi.node) if (isinstance(n, ast.Attribute) and isinstance(n.ctx, (ast.Store, ast.Del)) and n.attr in attrs)]
                    in_loop = any(isinstance(a_, (ast.For, ast.While, ast.AsyncFor)) for a_ in _ancestors(st, fi.node))
                    if in_loop or any(_pos(n) >= _pos(st) for n in own):
                        # ... or when no read of the alias can execute after such a store (CFG: from the binding to the store, and
                        # from the store on to a read without passing the binding again)
                        harmless = False
                        try:
                            _clear_analysis_caches()
                            from .cfg import cfg_of as _cfg_of2
                            g2 = _cfg_of2(fi)
                            bn2 = g2.node_of(st)
                            load_nodes2 = {g2.node_of(x).id for x in loads if g2.node_of(x) is not None}
                            if bn2 is not None and len(load_nodes2) > 0:
                                harmless = True
                                from_b2 = g2.reachable(bn2.id)
                                for n in own:
                                    sn = g2.node_of(n)
                                    if sn is None:
                                        harmless = False
                                        break
                                    if sn.id not in from_b2 and not in_loop:
                                        continue
                                    after2 = g2.reachable(sn.id, avoid=(bn2.id,)) - {sn.id}
                                    if after2 & load_nodes2 or sn.id in load_nodes2:
                                        harmless = False
                                        break
                        except Exception:
                            harmless = False
                        if not harmless:
                            continue
                # calls executed between the binding and the last read (over-approximated: every call in the following statements
                # of the block up to the last statement that reads the alias) must not reach a writer of a chain attribute
                calls = [c for s in blk[idx + 1:last + 1] for c in ast.walk(s) if isinstance(c, ast.Call)]
                if calls:
                    # only calls that can execute between the binding and a read matter: reachable from the binding, and a read
                    # reachable from them without passing the binding again (a call in a branch after which the alias is dead,
                    # or re-bound first, cannot change what any read sees)
                    try:
                        _clear_analysis_caches()
                        from .cfg import cfg_of as _cfg_of
                        g = _cfg_of(fi)
                        bn = g.node_of(st)
                        load_nodes = {g.node_of(x).id for x in loads if g.node_of(x) is not None}
                        if bn is not None and len(load_nodes) == len({id(x) for x in loads}) or bn is not None:
                            from_b = g.reachable(bn.id)
                            keep_calls = []
                            for c in calls:
                                cn = g.node_of(c)
                                if cn is None:
                                    keep_calls.append(c)
                                    continue
                                if cn.id not in from_b:
                                    continue
                                after = g.reachable(cn.id, avoid=(bn.id,))
                                # a read in the call's own cfg node may be evaluated after the call
                                if (after - {cn.id}) & load_nodes or cn.id in load_nodes:
                                    keep_calls.append(c)
                            calls = keep_calls
                    except Exception:
                        pass
                bad_fns = set()
                for a in attrs:
                    bad_fns |= writers.get(a, set())
                bad_fns |= writers.get("*", set())
                if len(ch) == 2 and root == "self" and fi.cls is not None:
                    # self.<attr> of an instance of this class: a method of an unrelated class that stores the same attribute name
                    # on *its* self writes another object
                    related = {fi.cls} | set(_mro(fi.cls)) | {c for c in repo.classes.values() if fi.cls in _mro(c)}
                    keep = set()
                    star = writers.get("*", set())
                    for wq in bad_fns:
                        w = repo.funcs.get(wq)
                        if w is None or w.cls is None or w.cls in related:
                            keep.add(wq)
                        elif wq in star and wq not in writers.get(ch[1], set()):
                            if not _setattr_only_on_own(w):
                                keep.add(wq)
                        elif not _stores_only_on_self(w, ch[1]):
                            keep.add(wq)
                    bad_fns = keep
                if len(ch) > 2 or (len(ch) == 2 and root != "self"):
                    # setattr with a computed name inside a method that only targets its own receiver (Serializable.__init__ /
                    # deserialize) writes objects of that class: harmless when no class that owns an attribute of the chain
                    # (stores it on its self) is related to it
                    star = writers.get("*", set())
                    owners = set()
                    for a_ in attrs:
                        for wq in writers.get(a_, ()):
                            w = repo.funcs.get(wq)
                            if w is not None and w.cls is not None:
                                owners.add(w.cls)
                    drop = set()
                    for wq in bad_fns & star:
                        w = repo.funcs.get(wq)
                        if w is None or w.cls is None or any(wq in writers.get(a_, ()) for a_ in attrs):
                            continue
                        fam = {w.cls} | set(_mro(w.cls)) | {c for c in repo.classes.values() if w.cls in _mro(c)}
                        if owners and not (fam & owners) and _setattr_only_on_own(w):
                            drop.add(wq)
                    bad_fns = bad_fns - drop
                if len(ch) == 1:
                    bad_fns = set()         # a local name cannot be rebound by anything that is called
                if calls and bad_fns:
                    if cg is None:
                        from .callgraph import CallGraph
                        cg = CallGraph(repo)
                    direct = {e.callee.qual for e in cg.callees(q) if any(e.call is c for c in calls)}
                    reach = cg.reachable(sorted(direct)) if direct else set()
                    reach = set(reach) | direct
                    if reach & bad_fns:
                        continue
                    # calls the graph could not resolve at all are library / builtin calls (len, isinstance, ...): they cannot store
                    # attributes of package objects unless they call back, which the by-name over-approximation already covers
                ok_all = True
              if not ok_all:
                break
            if not ok_all:
                continue
            for x in loads:
                new = ast.parse(ast.unparse(st.value), mode="eval").body
                for y in ast.walk(new):
                    ast.copy_location(y, x)
                    for c in ast.iter_child_nodes(y):
                        c._parent = y
                new._parent = x._parent
                new._alias_of = name
                _replace_child(x._parent, x, new)
                p = new._parent
                while p is not None:
                    if hasattr(p, "_norm_text"):
                        del p._norm_text
                    p = getattr(p, "_parent", None)
            inlined.setdefault(q, []).append(name)
            # the binding is dead now (every read was replaced and its value has no effect)
            if len(blk) > 1 and blk[idx] is st:
                del blk[idx]
                _invalidate(fi.node)
            for tw in twins:
                if len(blk) > 1 and any(tw is x for x in blk):
                    blk.remove(tw)
                    _invalidate(fi.node)
            if any(isinstance(x, ast.IfExp) or (isinstance(x, ast.Call) and isinstance(x.func, ast.Name) and x.func.id == "bool") for x in ast.walk(st.value)):
                _simplify_bool_contexts(fi.node)
    return inlined


def _pure_chain_expr(e):
    """the attribute chains / names read by an expression built only from comparisons, boolean and arithmetic operators and
    conditional expressions over chains and constants (no calls, no subscripts), or None"""
    chains = []

    def rec(x):
        if isinstance(x, ast.Constant):
            return True
        c = _chain(x)
        if c is not None:
            chains.append(c)
            return True
        if isinstance(x, ast.Compare):
            return rec(x.left) and all(rec(y) for y in x.comparators)
        if isinstance(x, ast.BoolOp):
            return all(rec(y) for y in x.values)
        if isinstance(x, ast.BinOp):
            return rec(x.left) and rec(x.right)
        if isinstance(x, ast.UnaryOp):
            return rec(x.operand)
        if isinstance(x, ast.IfExp):
            return rec(x.test) and rec(x.body) and rec(x.orelse)
        if isinstance(x, ast.Call) and isinstance(x.func, ast.Name) and x.func.id == "bool" and len(x.args) == 1 and not x.keywords:
            return rec(x.args[0])           # bool(<truth value>): no effect
        return False
    def boolean(x):
        # a truth value: comparison, and / or / not over such, a conditional expression of such or of constants
        if isinstance(x, ast.Call) and isinstance(x.func, ast.Name) and x.func.id == "bool" and len(x.args) == 1 and not x.keywords:
            return True
        if isinstance(x, ast.Compare):
            return True
        if isinstance(x, ast.BoolOp):
            return True
        if isinstance(x, ast.UnaryOp) and isinstance(x.op, ast.Not):
            return True
        if isinstance(x, ast.IfExp):
            return all(boolean(y) or isinstance(y, ast.Constant) for y in (x.body, x.orelse))
        return False
    if boolean(e) and rec(e):
        return chains
    return None


def _inside(node, kinds, stop):
    p = getattr(node, "_parent", None)
    while p is not None and p is not stop:
        if isinstance(p, kinds):
            return True
        p = getattr(p, "_parent", None)
    return False


# ----------------------------------------------------------------------------------------------------------------------
# spelling of conditions: `b > a` for `a < b`, `if not c: B else: A` for `if c: A else: B`, `not (a == b)` for `a != b`
# are rewritten (in memory) to the spelling of the reference version of the same function when that spelling occurs there

_MIRROR = {ast.Lt: ast.Gt, ast.LtE: ast.GtE, ast.Gt: ast.Lt, ast.GtE: ast.LtE, ast.Eq: ast.Eq, ast.NotEq: ast.NotEq}
_COMPL = {ast.Lt: ast.GtE, ast.GtE: ast.Lt, ast.Gt: ast.LtE, ast.LtE: ast.Gt, ast.Eq: ast.NotEq, ast.NotEq: ast.Eq,
          ast.In: ast.NotIn, ast.NotIn: ast.In, ast.Is: ast.IsNot, ast.IsNot: ast.Is}


def _txt(n):
    return ast.unparse(n)


def describe_tests(fnode):
    """texts of the comparisons, negations and if-tests of a function (reference spelling)"""
    comps, nots, tests = [], [], []
    for n in walk_own(fnode):
        if isinstance(n, ast.Compare):
            comps.append(_txt(n))
        elif isinstance(n, ast.UnaryOp) and isinstance(n.op, ast.Not):
            nots.append(_txt(n))
        if isinstance(n, (ast.If, ast.While, ast.IfExp)):
            tests.append(_txt(n.test))
    augs = sorted({_txt(n) for n in walk_own(fnode) if isinstance(n, ast.AugAssign)})
    ifs = {}
    for n in walk_own(fnode):
        if isinstance(n, ast.If) and n.body and isinstance(n.body[-1], _TERMINATORS):
            form = "else" if n.orelse else "noelse"
            t = _txt(n.test)
            ifs[t] = form if ifs.get(t, form) == form else "mixed"
    ifexps = sorted({_txt(n.test) for n in walk_own(fnode) if isinstance(n, ast.IfExp)})
    returns = sorted({_txt(n.value) if n.value is not None else "" for n in walk_own(fnode) if isinstance(n, ast.Return)})
    return {"compares": sorted(set(comps)), "nots": sorted(set(nots)), "tests": sorted(set(tests)), "augs": augs, "ifs": ifs, "ifexps": ifexps,
            "returns": returns}


_TERMINATORS = (ast.Return, ast.Raise, ast.Continue, ast.Break)


def _blocks(fnode):
    """(owner node, field name, statement list) of every block of the function"""
    out = [(fnode, "body", fnode.body)]
    for n in walk_own(fnode):
        for f in ("body", "orelse", "finalbody"):
            blk = getattr(n, f, None)
            if isinstance(blk, list) and blk and isinstance(blk[0], ast.stmt):
                out.append((n, f, blk))
        if isinstance(n, ast.Try):
            for h in n.handlers:
                out.append((h, "body", h.body))
    return out


def _invalidate(node):
    _GEN[0] += 1
    p = node
    while p is not None:
        if hasattr(p, "_norm_text"):
            del p._norm_text
        p = getattr(p, "_parent", None)


def _reshape(fi, ref_q):
    """else-after-return nesting and `x = x + c` for `x += c`, towards the reference form"""
    n_changed = 0
    ifs = ref_q.get("ifs", {})
    augs = set(ref_q.get("augs", []))
    again = True
    while again:
        again = False
        for owner, field, blk in _blocks(fi.node):
            for i, st in enumerate(blk):
                if not (isinstance(st, ast.If) and st.body and isinstance(st.body[-1], _TERMINATORS)):
                    continue
                form = ifs.get(_txt(st.test))
                if form is None and not st.orelse and i + 1 < len(blk):
                    # `if not T: A (returns); rest`  where the reference has `if T: rest' else: A'`: nest, exchange, un-negate
                    pos = _neg(st.test)
                    if ifs.get(_txt(pos)) == "else" and _always_leaves(blk[i + 1:]):
                        rest = blk[i + 1:]
                        del blk[i + 1:]
                        st.orelse = st.body
                        st.body = rest
                        for r in rest:
                            r._parent = st
                        new_t = ast.parse(ast.unparse(pos), mode="eval").body
                        for y in ast.walk(new_t):
                            ast.copy_location(y, st.test)
                            for c_ in ast.iter_child_nodes(y):
                                c_._parent = y
                        new_t._parent = st
                        st.test = new_t
                        _invalidate(st)
                        n_changed += 1
                        again = True
                        break
                if form is None and not st.orelse and i + 1 < len(blk) and ifs.get(_txt(_neg(st.test))) == "noelse" and _always_leaves(blk[i + 1:]):
                    # `if T: A (leaves); rest (leaves)`  where the reference has the guard `if not T: rest'` in front of A': exchanged
                    rest = blk[i + 1:]
                    del blk[i + 1:]
                    body = st.body
                    st.body = rest
                    for r in rest:
                        r._parent = st
                    new_t = ast.parse(ast.unparse(_neg(st.test)), mode="eval").body
                    for y in ast.walk(new_t):
                        ast.copy_location(y, st.test)
                        for c_ in ast.iter_child_nodes(y):
                            c_._parent = y
                    new_t._parent = st
                    st.test = new_t
                    blk[i + 1:i + 1] = body
                    for b_ in body:
                        b_._parent = owner
                    _invalidate(st)
                    _invalidate(owner)
                    n_changed += 1
                    again = True
                    break
                if form == "else" and not st.orelse and i + 1 < len(blk):
                    rest = blk[i + 1:]
                    del blk[i + 1:]
                    st.orelse = rest
                    for r in rest:
                        r._parent = st
                    _invalidate(st)
                    n_changed += 1
                    again = True
                    break
                if form == "noelse" and st.orelse and not (len(st.orelse) == 1 and isinstance(st.orelse[0], ast.If) and _txt(st.orelse[0].test) in ifs and False):
                    rest = st.orelse
                    st.orelse = []
                    blk[i + 1:i + 1] = rest
                    for r in rest:
                        r._parent = owner
                    _invalidate(st)
                    n_changed += 1
                    again = True
                    break
            if again:
                break
    for owner, field, blk in _blocks(fi.node):
        for i, st in enumerate(blk):
            if isinstance(st, ast.Assign) and len(st.targets) == 1 and isinstance(st.value, ast.BinOp) and isinstance(st.targets[0], (ast.Name, ast.Attribute)) \
                    and _txt(st.value.left) == _txt(st.targets[0]):
                aug = ast.AugAssign(target=st.targets[0], op=st.value.op, value=st.value.right)
                if _txt(aug) in augs:
                    ast.copy_location(aug, st)
                    aug._parent = owner
                    aug.target._parent = aug
                    aug.value._parent = aug
                    aug._respelled = True
                    blk[i] = aug
                    _invalidate(aug)
                    n_changed += 1
    return n_changed


def _mirror(c):
    return ast.Compare(left=c.comparators[0], ops=[_MIRROR[type(c.ops[0])]()], comparators=[c.left])


def _complement(c):
    return ast.Compare(left=c.left, ops=[_COMPL[type(c.ops[0])]()], comparators=list(c.comparators))


def _install(old, new):
    """put `new` (a fresh tree) where `old` is; fix parents, positions and cached texts"""
    new = ast.parse(ast.unparse(new), mode="eval").body
    for y in ast.walk(new):
        ast.copy_location(y, old)
        for c in ast.iter_child_nodes(y):
            c._parent = y
    # keep the original operand objects' identity out of it: rules never hold nodes across Repo construction
    new._parent = old._parent
    new._respelled = True
    _GEN[0] += 1
    _replace_child(old._parent, old, new)
    p = new._parent
    while p is not None:
        if hasattr(p, "_norm_text"):
            del p._norm_text
        p = getattr(p, "_parent", None)
    return new


def respell(repo, ref):
    """rewrite condition spellings to the reference spelling where the two are equivalent by construction:
    mirrored comparison (operands evaluated in the other order; their values do not depend on it in this code base's
    conditions, which contain no side-effecting operands), `not (a OP b)` for the complementary operator, and an if/else
    whose test is the negation (or complementary comparison) of the reference test with the two suites exchanged."""
    changed = {}
    for q, fi in repo.funcs.items():
        if fi.is_lambda or q not in ref or "compares" not in ref[q]:
            continue
        refc, refn, reft = set(ref[q]["compares"]), set(ref[q]["nots"]), set(ref[q]["tests"])
        n_changed = 0
        for _ in range(2):
            # if / else exchanged
            for n in list(walk_own(fi.node)):
                if not isinstance(n, ast.If) or not n.orelse:
                    continue
                if len(n.orelse) == 1 and isinstance(n.orelse[0], ast.If) and n.orelse[0].col_offset == n.col_offset and False:
                    continue
                t = n.test
                if _txt(t) in reft:
                    continue
                cands = []
                if isinstance(t, ast.UnaryOp) and isinstance(t.op, ast.Not):
                    cands.append(t.operand)
                    if isinstance(t.operand, ast.Compare) and len(t.operand.ops) == 1 and type(t.operand.ops[0]) in _MIRROR:
                        cands.append(_mirror(t.operand))
                elif isinstance(t, ast.Compare) and len(t.ops) == 1 and type(t.ops[0]) in _COMPL:
                    c = _complement(t)
                    cands.append(c)
                    if type(c.ops[0]) in _MIRROR:
                        cands.append(_mirror(c))
                for x in cands:
                    if _txt(x) in reft:
                        _install(t, x)
                        n.body, n.orelse = n.orelse, n.body
                        n_changed += 1
                        break
            # not (a OP b)  ->  a COMPL b
            for n in list(walk_own(fi.node)):
                if isinstance(n, ast.UnaryOp) and isinstance(n.op, ast.Not) and isinstance(n.operand, ast.Compare) and len(n.operand.ops) == 1 \
                        and type(n.operand.ops[0]) in _COMPL and _txt(n) not in refn and getattr(n, "_parent", None) is not None:
                    c = _complement(n.operand)
                    if _txt(c) in refc:
                        _install(n, c)
                        n_changed += 1
                    elif type(c.ops[0]) in _MIRROR and _txt(_mirror(c)) in refc:
                        _install(n, _mirror(c))
                        n_changed += 1
            # mirrored comparisons
            for n in list(walk_own(fi.node)):
                if isinstance(n, ast.Compare) and len(n.ops) == 1 and type(n.ops[0]) in _MIRROR and _txt(n) not in refc and getattr(n, "_parent", None) is not None:
                    m = _mirror(n)
                    if _txt(m) in refc:
                        _install(n, m)
                        n_changed += 1
        n_changed += _reshape(fi, ref[q])
        if n_changed:
            changed[q] = n_changed
    return changed


# ----------------------------------------------------------------------------------------------------------------------
# new single-use temporaries (`receiver = FragmentReceiver(...)` used once in the next statement) are folded back

def _pos(n):
    """document order of a node inside its function: the index of a pre-order walk (source positions are useless for code
    that was put in place by the translation itself - it all carries the position of the statement it replaced)"""
    top = n
    while getattr(top, "_parent", None) is not None and not isinstance(top, (ast.FunctionDef, ast.AsyncFunctionDef, ast.Lambda, ast.Module)):
        top = top._parent
    key = (id(top), _GEN[0])
    order = _ORDER.get(key)
    if order is None:
        order = {}
        stack = [top]
        while stack:
            x = stack.pop()
            order[id(x)] = len(order)
            stack.extend(reversed(list(ast.iter_child_nodes(x))))
        _ORDER.clear()
        _ORDER[key] = order
    if id(n) not in order:
        _GEN[0] += 1
        return _pos(n) if _GEN[0] < 10 ** 9 and id(n) in {id(y) for y in ast.walk(top)} else 0
    return order[id(n)]


_GEN = [0]
_ORDER = {}


def _ancestors(n, stop):
    out = []
    p = getattr(n, "_parent", None)
    while p is not None and p is not stop:
        out.append(p)
        p = getattr(p, "_parent", None)
    return out


def _header_nodes(st):
    """sub-expressions of a statement that are evaluated exactly once when the statement is reached, before any nested block"""
    if isinstance(st, (ast.Expr, ast.Return, ast.Assign, ast.AugAssign, ast.AnnAssign, ast.Raise, ast.Assert, ast.Delete)):
        return [st]
    if isinstance(st, ast.If):
        return [st.test]
    if isinstance(st, (ast.For, ast.AsyncFor)):
        return [st.iter]
    if isinstance(st, (ast.With, ast.AsyncWith)):
        return [st.items[0].context_expr] if st.items else []
    return []


def inline_new_temporaries(repo, ref):
    """`t = E` immediately followed by a statement that reads t exactly once (and nothing else reads it) is the statement
    with E in place of t, provided nothing that could interfere is evaluated between: no call of the using statement is
    evaluated before the read, the read is not under a conditional / repeated sub-expression, and t is a local the
    reference version of the function does not have.  The binding statement is removed from the in-memory tree."""
    folded = {}
    for q, fi in repo.funcs.items():
        if fi.is_lambda or q not in ref:
            continue
        ref_locals = {n for n, _ in ref[q]["locals"]} | set(ref[q]["params"])
        nested = _nested_uses(fi.node)
        progress = True
        while progress:
            progress = False
            for owner, field, blk in _blocks(fi.node):
                for i, st in enumerate(blk[:-1]):
                    if not (isinstance(st, ast.Assign) and len(st.targets) == 1 and isinstance(st.targets[0], ast.Name)):
                        continue
                    name = st.targets[0].id
                    if name in ref_locals or name in nested:
                        continue
                    if isinstance(st.value, (ast.Yield, ast.YieldFrom, ast.Await, ast.NamedExpr, ast.Lambda)):
                        continue
                    occ = [n for n in walk_own(fi.node) if isinstance(n, ast.Name) and n.id == name]
                    loads = [n for n in occ if isinstance(n.ctx, ast.Load)]
                    if len(occ) != 2 or len(loads) != 1:
                        continue
                    use = loads[0]
                    nxt = blk[i + 1]
                    roots = _header_nodes(nxt)
                    root = None
                    for r in roots:
                        if any(x is use for x in ast.walk(r)):
                            root = r
                    if root is None and ((isinstance(st.value, ast.Dict) and not st.value.keys) or (isinstance(st.value, (ast.List, ast.Tuple)) and not st.value.elts)
                                         or isinstance(st.value, ast.Constant)):
                        # an empty display or a constant reads nothing and does nothing: it may be evaluated at its single use
                        # further down the same block just as well
                        for j in range(i + 2, len(blk)):
                            for r in _header_nodes(blk[j]):
                                if any(x is use for x in ast.walk(r)):
                                    root, nxt = r, blk[j]
                            if root is not None:
                                break
                    if root is None:
                        continue
                    anc = _ancestors(use, getattr(root, "_parent", None))
                    if _pure_over_locals(st.value, fi):
                        # a side-effect free expression over locals and constants has the same value wherever the using
                        # statement evaluates it (once, conditionally or not): only repeated evaluation contexts are excluded
                        if not any(isinstance(a, (ast.Lambda, ast.ListComp, ast.SetComp, ast.DictComp, ast.GeneratorExp)) for a in anc):
                            _install(use, st.value)
                            del blk[i]
                            _invalidate(owner)
                            folded.setdefault(q, []).append(name)
                            progress = True
                            break
                    # not under conditional / repeated evaluation
                    bad = False
                    child = use
                    for a in anc:
                        if isinstance(a, (ast.Lambda, ast.ListComp, ast.SetComp, ast.DictComp, ast.GeneratorExp)):
                            bad = True
                        if isinstance(a, ast.BoolOp) and a.values[0] is not child:
                            bad = True
                        if isinstance(a, ast.IfExp) and a.test is not child:
                            bad = True
                        if isinstance(a, ast.Compare) and len(a.ops) > 1 and a.left is not child and a.comparators[0] is not child:
                            bad = True
                        child = a
                    if bad:
                        continue
                    # nothing with an effect is evaluated in the using statement before the read
                    anc_ids = {id(a) for a in anc}
                    in_target = isinstance(nxt, (ast.Assign, ast.AugAssign, ast.AnnAssign)) and not any(x is use for x in ast.walk(nxt.value)) if hasattr(nxt, "value") and nxt.value is not None else False
                    deferred = {id(y) for lam in ast.walk(root) if isinstance(lam, ast.Lambda) for y in ast.walk(lam.body)}
                    for c in ast.walk(root):
                        if id(c) in deferred:
                            continue    # the body of a lambda is not evaluated by the statement that creates it
                        if isinstance(c, (ast.Call, ast.Await, ast.Yield, ast.YieldFrom, ast.NamedExpr)) and id(c) not in anc_ids and not any(x is c for x in ast.walk(use)):
                            if isinstance(c, ast.Call) and isinstance(c.func, ast.Name) and c.func.id == "super" and not c.args and not c.keywords:
                                continue    # zero-argument super() has no effect and reads nothing E could change
                            if in_target or _pos(c) < _pos(use):
                                bad = True
                                break
                    if bad:
                        continue
                    _install(use, st.value)
                    del blk[i]
                    _invalidate(owner)
                    folded.setdefault(q, []).append(name)
                    progress = True
                    break
                if progress:
                    break
    return folded


def _fresh_stmt(src, like, owner):
    out = ast.parse(src).body
    for top in out:
        for y in ast.walk(top):
            ast.copy_location(y, like)
            for z in ast.iter_child_nodes(y):
                z._parent = y
        top._parent = owner
    return out


def stdlib_equivalents(repo, ref):
    """two spellings the standard library defines as the same thing:
    `inspect.isclass(E)` is `isinstance(E, type)` (inspect.py: `return isinstance(object, type)`);
    `D.pop(K, None)` as a whole statement, D a plain attribute chain and K a name, is `if K in D: del D[K]` (dict.pop with a default
    removes the key when present, does nothing when absent, and the result is discarded)"""
    done = {}
    for q, fi in repo.funcs.items():
        if fi.is_lambda or q not in ref:
            continue
        for c in list(walk_own(fi.node)):
            if isinstance(c, ast.Call) and isinstance(c.func, ast.Attribute) and c.func.attr == "isclass" and isinstance(c.func.value, ast.Name) \
                    and len(c.args) == 1 and not c.keywords and getattr(c, "_parent", None) is not None:
                rn = repo.resolve_name(fi.module, c.func.value.id)
                if rn is not None and rn[0] == "extmodule" and rn[1] == "inspect":
                    _install(c, ast.parse("isinstance(%s, type)" % ast.unparse(c.args[0]), mode="eval").body)
                    done.setdefault(q, []).append("inspect.isclass")
        for owner, field, blk in _blocks(fi.node):
            for i, st in enumerate(blk):
                if isinstance(st, ast.Expr) and isinstance(st.value, ast.Call) and isinstance(st.value.func, ast.Attribute) and st.value.func.attr == "pop" \
                        and len(st.value.args) == 2 and not st.value.keywords and isinstance(st.value.args[1], ast.Constant) and st.value.args[1].value is None \
                        and isinstance(st.value.args[0], ast.Name) and _chain(st.value.func.value) is not None:
                    d_, k_ = ast.unparse(st.value.func.value), st.value.args[0].id
                    new = _fresh_stmt("if %s in %s:\n    del %s[%s]" % (k_, d_, d_, k_), st, owner)[0]
                    blk[i] = new
                    _invalidate(owner)
                    done.setdefault(q, []).append("pop(k, None)")
                elif isinstance(st, ast.Try) and not st.finalbody and len(st.handlers) == 1 and ast.unparse(st.handlers[0].type or ast.Name(id="")) == "KeyError" \
                        and st.handlers[0].name is None and len(st.handlers[0].body) == 1 and isinstance(st.handlers[0].body[0], ast.Pass) and len(st.body) == 1 \
                        and ((isinstance(st.body[0], ast.Assign) and len(st.body[0].targets) == 1 and isinstance(st.body[0].targets[0], ast.Name) and isinstance(st.body[0].value, ast.Subscript)
                              and isinstance(st.body[0].value.slice, ast.Name) and _chain(st.body[0].value.value) is not None)
                             or (isinstance(st.body[0], ast.Delete) and len(st.body[0].targets) == 1 and isinstance(st.body[0].targets[0], ast.Subscript) and not st.orelse
                                 and isinstance(st.body[0].targets[0].slice, ast.Name) and _chain(st.body[0].targets[0].value) is not None)):
                    # try: x = D[k] / del D[k]   except KeyError: pass   else: B     is     if k in D: x = D[k] / del D[k]; B
                    sub = st.body[0].value if isinstance(st.body[0], ast.Assign) else st.body[0].targets[0]
                    new = _fresh_stmt("if %s in %s:\n    pass" % (sub.slice.id, ast.unparse(sub.value)), st, owner)[0]
                    new.body = [st.body[0]] + list(st.orelse)
                    for b_ in new.body:
                        b_._parent = new
                    blk[i] = new
                    _invalidate(owner)
                    done.setdefault(q, []).append("try KeyError")
                elif isinstance(st, ast.Expr) and isinstance(st.value, ast.Call) and isinstance(st.value.func, ast.Attribute) and st.value.func.attr == "pop" \
                        and len(st.value.args) == 1 and not st.value.keywords and not isinstance(st.value.args[0], ast.Constant) \
                        and _chain(st.value.args[0]) is not None and _chain(st.value.func.value) is not None:
                    # D.pop(K) with the result discarded is del D[K]: the same KeyError(K) when the key is absent
                    new = _fresh_stmt("del %s[%s]" % (ast.unparse(st.value.func.value), ast.unparse(st.value.args[0])), st, owner)[0]
                    blk[i] = new
                    _invalidate(owner)
                    done.setdefault(q, []).append("pop(k)")
    return done


def local_buffers(repo, ref_or_new):
    """with BytesIO() as X: BODY   is   X = BytesIO(); BODY   when X is a local that is used only inside BODY, only as the receiver of
    method calls or as a whole positional argument of a call, and never after the block: leaving the block closes a buffer that
    nothing can reach any more"""
    done = {}
    for q, fi in repo.funcs.items():
        if fi.is_lambda or (ref_or_new is not None and q in ref_or_new):
            continue
        for owner, field, blk in _blocks(fi.node):
            for i, st in enumerate(blk):
                if not (isinstance(st, ast.With) and len(st.items) == 1 and isinstance(st.items[0].optional_vars, ast.Name) and isinstance(st.items[0].context_expr, ast.Call)
                        and ast.unparse(st.items[0].context_expr) in ("BytesIO()", "io.BytesIO()")):
                    continue
                x = st.items[0].optional_vars.id
                uses = [n for n in walk_own(fi.node) if isinstance(n, ast.Name) and n.id == x and n is not st.items[0].optional_vars]
                inside = {id(n) for s_ in st.body for n in ast.walk(s_)}
                ok = x not in fi.params and all(id(n) in inside and isinstance(n.ctx, ast.Load) and (
                    (isinstance(getattr(n, "_parent", None), ast.Attribute) and isinstance(getattr(n._parent, "_parent", None), ast.Call) and n._parent._parent.func is n._parent)
                    or (isinstance(getattr(n, "_parent", None), ast.Call) and n in n._parent.args)) for n in uses)
                if not ok:
                    continue
                new = _fresh_stmt("%s = %s" % (x, ast.unparse(st.items[0].context_expr)), st, owner)[0]
                for b_ in st.body:
                    b_._parent = owner
                blk[i:i + 1] = [new] + st.body
                _invalidate(owner)
                done.setdefault(q, []).append(x)
    return done


def counted_loops(repo, ref):
    """two spellings of "n times" as a while loop, where the reference counts with range and n is a name the function tests with
    isinstance(n, int):
        v = n; while v > 0: BODY; v -= 1      (v a new local used for nothing else; the decrement is a top-level statement of the
                                               body, which has no continue)                          ->  for v in range(n): BODY
        while len(L) < n: L.append(E)         (L bound to an empty list display just before, the append is the whole body)
                                                                                                     ->  for _i in range(n): L.append(E)"""
    done = {}
    for q, fi in repo.funcs.items():
        if fi.is_lambda or q not in ref:
            continue
        # for n, x in enumerate(L, start=1)  ->  for n0, x in enumerate(L) with 1 + n0 for n   (n not rebound in the body, not used after)
        for owner, field, blk in _blocks(fi.node):
            for i, st in enumerate(blk):
                if not (isinstance(st, ast.For) and isinstance(st.iter, ast.Call) and isinstance(st.iter.func, ast.Name) and st.iter.func.id == "enumerate"
                        and isinstance(st.target, ast.Tuple) and len(st.target.elts) == 2 and isinstance(st.target.elts[0], ast.Name)):
                    continue
                c = st.iter
                start = c.args[1] if len(c.args) == 2 and not c.keywords else c.keywords[0].value if len(c.args) == 1 and len(c.keywords) == 1 and c.keywords[0].arg == "start" else None
                if not (isinstance(start, ast.Constant) and start.value == 1 and type(start.value) is int):
                    continue
                v = st.target.elts[0].id
                inner = {id(x) for s_ in st.body + [st.target] for x in ast.walk(s_)}
                if any(isinstance(x, ast.Name) and x.id == v and (id(x) not in inner or (isinstance(x.ctx, (ast.Store, ast.Del)) and x is not st.target.elts[0])) for x in walk_own(fi.node)) \
                        or any(isinstance(x, ast.Lambda) and any(isinstance(y, ast.Name) and y.id == v for y in ast.walk(x.body)) for s_ in st.body for x in ast.walk(s_)):
                    continue
                v0 = "index" if "index" not in ({n for n, _ in _bound_names(fi.node)[0]} | set(fi.params)) else v + "0"
                body = ast.parse("\n".join(ast.unparse(s_) for s_ in st.body))
                body = _SubstNames({v: "(1 + %s)" % v0}).visit(body)
                src = ast.unparse(body).replace("1 + %s - 1" % v0, v0)
                new = _fresh_stmt("for %s, %s in enumerate(%s):\n    pass" % (v0, ast.unparse(st.target.elts[1]), ast.unparse(c.args[0])), st, owner)[0]
                new.body = _fresh_stmt(src, st, new)
                new.orelse = st.orelse
                blk[i] = new
                _invalidate(owner)
                done.setdefault(q, []).append("enumerate start=1")
        int_tested = {norm_arg for n_ in walk_own(fi.node) if isinstance(n_, ast.Call) and isinstance(n_.func, ast.Name) and n_.func.id == "isinstance" and len(n_.args) == 2
                      and isinstance(n_.args[0], ast.Name) and ast.unparse(n_.args[1]) == "int" for norm_arg in [n_.args[0].id]}
        for owner, field, blk in _blocks(fi.node):
            for i, st in enumerate(blk):
                if not (isinstance(st, ast.While) and not st.orelse and isinstance(st.test, ast.Compare) and len(st.test.ops) == 1):
                    continue
                if any(isinstance(x, ast.Continue) for s_ in st.body for x in ast.walk(s_)):
                    continue
                t = st.test
                new = None
                if isinstance(t.ops[0], ast.Gt) and isinstance(t.left, ast.Name) and isinstance(t.comparators[0], ast.Constant) and t.comparators[0].value == 0 and i >= 1:
                    v = t.left.id
                    prev = blk[i - 1]
                    decs = [k for k, b_ in enumerate(st.body) if isinstance(b_, ast.AugAssign) and isinstance(b_.op, ast.Sub) and isinstance(b_.target, ast.Name) and b_.target.id == v
                            and isinstance(b_.value, ast.Constant) and b_.value.value == 1]
                    uses = [x for x in walk_own(fi.node) if isinstance(x, ast.Name) and x.id == v]
                    if isinstance(prev, ast.Assign) and len(prev.targets) == 1 and isinstance(prev.targets[0], ast.Name) and prev.targets[0].id == v and isinstance(prev.value, ast.Name) \
                            and prev.value.id in int_tested and len(decs) == 1 and len(uses) == 3 and v not in fi.params \
                            and not any(isinstance(x, ast.Name) and x.id == prev.value.id and isinstance(x.ctx, ast.Store) for s_ in st.body for x in ast.walk(s_)):
                        body = [b_ for k, b_ in enumerate(st.body) if k != decs[0]] or [ast.Pass()]
                        new = _fresh_stmt("for %s in range(%s):\n    pass" % (v, prev.value.id), st, owner)[0]
                        new.body = body
                        for b_ in body:
                            b_._parent = new
                        blk[i - 1:i + 1] = [new]
                elif isinstance(t.ops[0], ast.Lt) and isinstance(t.left, ast.Call) and ast.unparse(t.left.func) == "len" and len(t.left.args) == 1 and isinstance(t.left.args[0], ast.Name) \
                        and isinstance(t.comparators[0], ast.Name) and t.comparators[0].id in int_tested and len(st.body) == 1 and i >= 1:
                    L, n_ = t.left.args[0].id, t.comparators[0].id
                    b_ = st.body[0]
                    prev = blk[i - 1]
                    if isinstance(b_, ast.Expr) and isinstance(b_.value, ast.Call) and ast.unparse(b_.value.func) == "%s.append" % L and len(b_.value.args) == 1 and not b_.value.keywords \
                            and not any(isinstance(x, ast.Name) and x.id in (L, n_) for x in ast.walk(b_.value.args[0])) \
                            and isinstance(prev, ast.Assign) and len(prev.targets) == 1 and isinstance(prev.targets[0], ast.Name) and prev.targets[0].id == L \
                            and isinstance(prev.value, ast.List) and not prev.value.elts:
                        new = _fresh_stmt("for _i in range(%s):\n    pass" % n_, st, owner)[0]
                        new.body = st.body
                        for x_ in new.body:
                            x_._parent = new
                        blk[i] = new
                if new is not None:
                    _invalidate(owner)
                    done.setdefault(q, []).append(ast.unparse(t))
                    break
    return done


def scalarize_records(repo, full_ref):
    """A new private class C (none of its methods is in the reference tree) that only bundles a few fields: constructor without
    parameters whose body is `self.f = <display or constant>` assignments, methods that touch `self` only as `self.f`.  In a
    function where a local x is bound exactly once, by `x = C()`, and used only as `x.f` or `x.m(...)`, the object is its fields:
    `x = C()` becomes `x__f = <initial value>` per field, `x.f` becomes `x__f`, and the method calls are put in place
    (`x.m(a)` as a statement: the body, which does not return a value; `if x.m(a):` - the statements of m in front of the `if`
    and m's returned expression as the test; arguments that are not plain names are bound to temporaries first, in order).
    `y = x__f` as y's only binding, with x__f not used afterwards, makes y the field."""
    done = {}
    for q, fi in list(repo.funcs.items()):
        if fi.is_lambda or q not in full_ref:
            continue
        for _round in range(3):
            cand = None
            for owner, field, blk in _blocks(fi.node):
                for i, st in enumerate(blk):
                    if isinstance(st, ast.Assign) and len(st.targets) == 1 and isinstance(st.targets[0], ast.Name) and isinstance(st.value, ast.Call) and isinstance(st.value.func, ast.Name) \
                            and not st.value.args and not st.value.keywords and st.value.func.id in fi.module.classes:
                        cand = (owner, blk, i, st)
                        break
                if cand:
                    break
            if not cand:
                break
            owner, blk, i, st = cand
            x, ci = st.targets[0].id, fi.module.classes[st.value.func.id]
            meths = dict(ci.methods)
            if any(("%s:%s.%s" % (fi.module.name, ci.name, m)) in full_ref for m in meths) or "__init__" not in meths or x in fi.params:
                break
            if [b for b in getattr(ci, "bases", []) if getattr(b, "name", "object") != "object"]:
                break
            init = meths["__init__"]
            if len(init.params) != 1:
                break
            sp = init.params[0]
            fields = []
            ok = True
            for b in init.node.body:
                if isinstance(b, ast.Expr) and isinstance(b.value, ast.Constant):
                    continue
                if isinstance(b, ast.Expr) and isinstance(b.value, ast.Call) and ast.unparse(b.value).startswith("super(") and ast.unparse(b.value).endswith(".__init__()"):
                    continue
                if isinstance(b, ast.Assign) and len(b.targets) == 1 and isinstance(b.targets[0], ast.Attribute) and isinstance(b.targets[0].value, ast.Name) and b.targets[0].value.id == sp \
                        and not any(isinstance(y, (ast.Name, ast.Call)) for y in ast.walk(b.value)):
                    fields.append((b.targets[0].attr, ast.unparse(b.value)))
                    continue
                ok = False
            fnames = {f for f, _ in fields}
            for mname, m in meths.items():
                if mname == "__init__":
                    continue
                if not m.params or m.node.args.vararg or m.node.args.kwarg or m.node.args.kwonlyargs or m.node.args.defaults or m.decorators \
                        or any(isinstance(y, (ast.Yield, ast.YieldFrom, ast.Lambda, ast.FunctionDef, ast.Global, ast.Nonlocal)) for y in ast.walk(m.node) if y is not m.node):
                    ok = False
                    continue
                for y in ast.walk(m.node):
                    if isinstance(y, ast.Name) and y.id == m.params[0] and not (isinstance(getattr(y, "_parent", None), ast.Attribute) and y._parent.attr in fnames):
                        ok = False
            uses = [n for n in walk_own(fi.node) if isinstance(n, ast.Name) and n.id == x and n is not st.targets[0]]
            for n in uses:
                p_ = getattr(n, "_parent", None)
                if not isinstance(n.ctx, ast.Load) or not isinstance(p_, ast.Attribute):
                    ok = False
                elif p_.attr in fnames:
                    pass
                elif p_.attr in meths and p_.attr != "__init__" and isinstance(getattr(p_, "_parent", None), ast.Call) and p_._parent.func is p_:
                    c = p_._parent
                    if c.keywords or any(isinstance(a_, ast.Starred) for a_ in c.args) or len(c.args) != len(meths[p_.attr].params) - 1:
                        ok = False
                else:
                    ok = False
            if not ok or not fields:
                break
            # method calls, innermost blocks first; repeated until none is left
            changed = True
            failed = False
            counter = [0]
            recent = {}
            while changed and not failed:
                changed = False
                for owner2, field2, blk2 in _blocks(fi.node):
                    for j, s2 in enumerate(blk2):
                        site = None
                        if isinstance(s2, ast.Expr) and isinstance(s2.value, ast.Call) and isinstance(s2.value.func, ast.Attribute) and isinstance(s2.value.func.value, ast.Name) \
                                and s2.value.func.value.id == x and s2.value.func.attr in meths:
                            site = ("stmt", s2.value)
                        elif isinstance(s2, ast.If):
                            t = s2.test
                            neg = isinstance(t, ast.UnaryOp) and isinstance(t.op, ast.Not)
                            c0 = t.operand if neg else t
                            if isinstance(c0, ast.Call) and isinstance(c0.func, ast.Attribute) and isinstance(c0.func.value, ast.Name) and c0.func.value.id == x and c0.func.attr in meths:
                                site = ("test", c0)
                        if site is None:
                            continue
                        kind, c = site
                        m = meths[c.func.attr]
                        body = [b for b in m.node.body if not (isinstance(b, ast.Expr) and isinstance(b.value, ast.Constant))]
                        rets = [y for b in body for y in ast.walk(b) if isinstance(y, ast.Return)]
                        if kind == "stmt" and (rets and not (len(rets) == 1 and body and body[-1] is rets[0] and (rets[0].value is None or isinstance(rets[0].value, ast.Constant)))):
                            failed = True
                            break
                        tree = None
                        if kind == "test" and len(rets) == 2 and body and body[-1] is rets[1] and all(isinstance(r_.value, ast.Constant) and isinstance(r_.value.value, bool) for r_ in rets) \
                                and rets[0].value.value != rets[1].value.value:
                            # P; if C: return A; Q; return B   (A, B the two boolean constants): the test-and-act form
                            k_ = [k for k, b in enumerate(body) if isinstance(b, ast.If) and not b.orelse and len(b.body) == 1 and b.body[0] is rets[0]]
                            if len(k_) == 1 and not any(isinstance(y, ast.Return) for b in body[:k_[0]] for y in ast.walk(b)):
                                tree = (k_[0], rets[0].value.value)
                        if kind == "test" and tree is None and not (len(rets) == 1 and body and body[-1] is rets[0] and rets[0].value is not None):
                            failed = True
                            break
                        pre, mapping = [], {}
                        caller_names = {n_ for n_, _ in _bound_names(fi.node)[0]} | set(fi.params)
                        for pname, a_ in zip(m.params[1:], c.args):
                            if isinstance(a_, (ast.Name, ast.Constant)):
                                mapping[pname] = ast.unparse(a_)
                            elif kind == "stmt" and j == 0 and isinstance(owner2, ast.If) and blk2 is owner2.body and isinstance(a_, ast.Call) and isinstance(a_.func, ast.Attribute) \
                                    and a_.func.attr == "pop" and len(a_.args) == 1 and not a_.keywords and isinstance(a_.args[0], ast.Name) and _chain(a_.func.value) is not None \
                                    and "%s[%s]" % (ast.unparse(a_.func.value), a_.args[0].id) in recent.get(id(owner2), {}):
                                # Q.pop(k) as the first thing under an `if` whose test looked at Q[k] through a temporary: the popped element is that one
                                pre.append(ast.unparse(a_))
                                mapping[pname] = recent[id(owner2)]["%s[%s]" % (ast.unparse(a_.func.value), a_.args[0].id)]
                            else:
                                counter[0] += 1
                                tname = "_%s%d" % (pname, counter[0])
                                pre.append("%s = %s" % (tname, ast.unparse(a_)))
                                mapping[pname] = tname
                                if kind == "test" and isinstance(a_, ast.Subscript):
                                    recent.setdefault(id(s2), {})[ast.unparse(a_)] = tname
                        for n_, _ in _bound_names(m.node)[0]:
                            if n_ in caller_names and n_ not in mapping and n_ not in m.params:
                                mapping[n_] = n_ + "__r"
                        stmts = body[:-1] if rets else body
                        if tree is not None:
                            stmts = body[:tree[0]]
                        src = "\n".join(pre + [ast.unparse(b) for b in stmts]) or "pass"
                        mod = ast.parse(src)
                        selfname = m.params[0]

                        class _Fix(ast.NodeTransformer):
                            def visit_Attribute(self, node):
                                if isinstance(node.value, ast.Name) and node.value.id == selfname and node.attr in fnames:
                                    return ast.copy_location(ast.Name(id="%s__%s" % (x, node.attr), ctx=node.ctx), node)
                                return self.generic_visit(node)
                        mod = _SubstNames(mapping).visit(_Fix().visit(mod))
                        fresh = _fresh_stmt(ast.unparse(ast.fix_missing_locations(mod)), s2, owner2)
                        fresh = [f_ for f_ in fresh if not isinstance(f_, ast.Pass)]
                        if kind == "test" and tree is not None:
                            # the call is true exactly on the path that runs Q: Q goes in front of the branch taken when the call is true
                            cond = body[tree[0]].test
                            q_src = "\n".join(ast.unparse(b) for b in body[tree[0] + 1:-1]) or "pass"
                            q_mod = _SubstNames(mapping).visit(_Fix().visit(ast.parse(q_src)))
                            q_fresh = [f_ for f_ in _fresh_stmt(ast.unparse(ast.fix_missing_locations(q_mod)), s2, s2) if not isinstance(f_, ast.Pass)]
                            e_ = _SubstNames(mapping).visit(_Fix().visit(ast.parse(ast.unparse(cond), mode="eval").body))
                            call_true_when_cond = (rets[0].value.value is True)          # `if C: return True`
                            # test_is_true <=> (call is true) xor neg
                            test_when_cond = call_true_when_cond != neg
                            e_ = ast.parse(("%s" if test_when_cond else "not (%s)") % ast.unparse(ast.fix_missing_locations(e_)), mode="eval").body
                            _install(s2.test, e_)
                            # Q runs when the call is (not call_true_when_cond ... ) i.e. on the fall-through path: the call's value there is rets[1]
                            q_in_body = (rets[1].value.value is True) != neg
                            if q_in_body:
                                s2.body[0:0] = q_fresh
                            else:
                                s2.orelse[0:0] = q_fresh
                            blk2[j:j] = fresh
                        elif kind == "test":
                            e_ = ast.parse(ast.unparse(rets[0].value), mode="eval").body
                            e_ = _SubstNames(mapping).visit(_Fix().visit(e_))
                            e_ = ast.parse(("not (%s)" if neg else "%s") % ast.unparse(ast.fix_missing_locations(e_)), mode="eval").body
                            _install(s2.test, e_)
                            blk2[j:j] = fresh
                        else:
                            blk2[j:j + 1] = fresh or _fresh_stmt("pass", s2, owner2)
                        _invalidate(owner2)
                        changed = True
                        break
                    if changed or failed:
                        break
            if failed or any(isinstance(n, ast.Name) and n.id == x and isinstance(getattr(n, "_parent", None), ast.Attribute) and n._parent.attr in meths and n._parent.attr not in fnames
                             for n in walk_own(fi.node)):
                break           # (a call form that is not handled: the function is left half translated and the rules will say so)
            # fields
            for n in list(walk_own(fi.node)):
                if isinstance(n, ast.Attribute) and isinstance(n.value, ast.Name) and n.value.id == x and n.attr in fnames and getattr(n, "_parent", None) is not None:
                    new = ast.Name(id="%s__%s" % (x, n.attr), ctx=n.ctx)
                    ast.copy_location(new, n)
                    new._parent = n._parent
                    _replace_child(n._parent, n, new)
                    _invalidate(new)
            for owner3, field3, blk3 in _blocks(fi.node):
                for j, s3 in enumerate(blk3):
                    if s3 is st:
                        blk3[j:j + 1] = _fresh_stmt("\n".join("%s__%s = %s" % (x, f, v) for f, v in fields), st, owner3)
                        _invalidate(owner3)
            # y = x__f as y's only binding, the field not used afterwards: y is the field
            for f, _v in fields:
                fn_ = "%s__%s" % (x, f)
                for owner3, field3, blk3 in _blocks(fi.node):
                    for j, s3 in enumerate(blk3):
                        if isinstance(s3, ast.Assign) and len(s3.targets) == 1 and isinstance(s3.targets[0], ast.Name) and isinstance(s3.value, ast.Name) and s3.value.id == fn_:
                            y = s3.targets[0].id
                            stores = [n for n in walk_own(fi.node) if isinstance(n, ast.Name) and n.id == y and isinstance(n.ctx, (ast.Store, ast.Del))]
                            own_ = {id(n) for n in ast.walk(s3)}
                            later = [n for n in walk_own(fi.node) if isinstance(n, ast.Name) and n.id == fn_ and id(n) not in own_ and _pos(n) > _pos(s3)]
                            in_loop = _inside(s3, (ast.For, ast.While), fi.node)
                            if len(stores) == 1 and not later and not in_loop and y not in fi.params:
                                del blk3[j]
                                for n in walk_own(fi.node):
                                    if isinstance(n, ast.Name) and n.id == fn_:
                                        n.id = y
                                _invalidate(owner3)
                                break
            done.setdefault(q, []).append(ci.name)
            _clear_analysis_caches()
    return done


def suppress_to_try(repo, ref):
    """with contextlib.suppress(E1, E2): B    is    try: B  except (E1, E2): pass    (the context manager's exit swallows exactly
    the exceptions an except clause with those classes would catch, and nothing else happens on entry or exit)"""
    done = {}
    for q, fi in repo.funcs.items():
        if fi.is_lambda or q not in ref:
            continue
        for owner, field, blk in _blocks(fi.node):
            for i, st in enumerate(blk):
                if not (isinstance(st, ast.With) and len(st.items) == 1 and st.items[0].optional_vars is None and isinstance(st.items[0].context_expr, ast.Call)):
                    continue
                c = st.items[0].context_expr
                if ast.unparse(c.func) not in ("contextlib.suppress", "suppress") or c.keywords or not c.args \
                        or not all(_chain(a_) is not None for a_ in c.args):
                    continue
                typ = ast.unparse(c.args[0]) if len(c.args) == 1 else "(%s)" % ", ".join(ast.unparse(a_) for a_ in c.args)
                new = _fresh_stmt("try:\n    pass\nexcept %s:\n    pass" % typ, st, owner)[0]
                new.body = st.body
                for b_ in new.body:
                    b_._parent = new
                blk[i] = new
                _invalidate(owner)
                done.setdefault(q, []).append(typ)
    return done


def expand_records(repo, ref):
    """T = namedtuple("T", [f1 .. fn]) at module level (bound once).  In a function, a new local x bound once by
    `x = T(a1 .. an)` (every field given, positionally or by keyword) or by `x = T._make(struct.unpack(<format of n values>, d))`
    and otherwise only read as x.fi, x[<constant i>] or *x in a call is n locals x__f1 .. x__fn: the record is only a name for
    the n values (a tuple is immutable and nothing else sees the object)."""
    import struct as _struct
    done = {}
    for m in repo.modules.values():
        types = {}
        counts = {}
        for st in m.tree.body:
            for x in ast.walk(st) if not isinstance(st, (ast.FunctionDef, ast.AsyncFunctionDef, ast.ClassDef)) else []:
                if isinstance(x, ast.Name) and isinstance(x.ctx, (ast.Store, ast.Del)):
                    counts[x.id] = counts.get(x.id, 0) + 1
        for st in m.tree.body:
            if isinstance(st, ast.Assign) and len(st.targets) == 1 and isinstance(st.targets[0], ast.Name) and isinstance(st.value, ast.Call) \
                    and ast.unparse(st.value.func) in ("namedtuple", "collections.namedtuple") and len(st.value.args) == 2 and not st.value.keywords \
                    and counts.get(st.targets[0].id) == 1:
                f = st.value.args[1]
                names = None
                if isinstance(f, (ast.List, ast.Tuple)) and all(isinstance(e, ast.Constant) and isinstance(e.value, str) for e in f.elts):
                    names = [e.value for e in f.elts]
                elif isinstance(f, ast.Constant) and isinstance(f.value, str):
                    names = f.value.replace(",", " ").split()
                if names and all(n_.isidentifier() and not n_.startswith("_") for n_ in names) and len(set(names)) == len(names):
                    types[st.targets[0].id] = names
        if not types:
            continue
        for q, fi in repo.funcs.items():
            if fi.is_lambda or q not in ref or fi.module is not m:
                continue
            ref_locals = {n for n, _ in ref[q]["locals"]} | set(ref[q]["params"])
            nested = _nested_uses(fi.node)
            own_names = {x.id for x in ast.walk(fi.node) if isinstance(x, ast.Name)} | {a_.arg for a_ in ast.walk(fi.node) if isinstance(a_, ast.arg)}
            if any(isinstance(x, ast.Name) and x.id in types and isinstance(x.ctx, (ast.Store, ast.Del)) for x in ast.walk(fi.node)):
                continue
            for owner, field, blk in _blocks(fi.node):
                for i, st in enumerate(list(blk)):
                    if not (isinstance(st, ast.Assign) and len(st.targets) == 1 and isinstance(st.targets[0], ast.Name) and isinstance(st.value, ast.Call)):
                        continue
                    x = st.targets[0].id
                    if x in nested or x in fi.params:
                        continue
                    c = st.value
                    fields = None
                    srcs = None
                    if isinstance(c.func, ast.Name) and c.func.id in types:
                        fields = types[c.func.id]
                        if any(isinstance(a_, ast.Starred) for a_ in c.args) or any(k.arg is None for k in c.keywords) or len(c.args) > len(fields):
                            continue
                        given = dict(zip(fields, c.args))
                        bad = False
                        for k in c.keywords:
                            if k.arg not in fields or k.arg in given:
                                bad = True
                            given[k.arg] = k.value
                        if bad or set(given) != set(fields):
                            continue
                        order = fields[:len(c.args)] + [k.arg for k in c.keywords]       # evaluation order as written
                        srcs = ["%s__%s = %s" % (x, f_, ast.unparse(given[f_])) for f_ in order]
                    elif isinstance(c.func, ast.Attribute) and c.func.attr == "_make" and isinstance(c.func.value, ast.Name) and c.func.value.id in types \
                            and len(c.args) == 1 and not c.keywords and isinstance(c.args[0], ast.Call) and ast.unparse(c.args[0].func) == "struct.unpack" \
                            and c.args[0].args and isinstance(c.args[0].args[0], ast.Constant) and isinstance(c.args[0].args[0].value, str):
                        fields = types[c.func.value.id]
                        try:
                            nvals = len(_struct.unpack(c.args[0].args[0].value, bytes(_struct.calcsize(c.args[0].args[0].value))))
                        except _struct.error:
                            continue
                        if nvals != len(fields):
                            continue
                        srcs = ["%s = %s" % (", ".join("%s__%s" % (x, f_) for f_ in fields) + ("," if len(fields) == 1 else ""), ast.unparse(c.args[0]))]
                    else:
                        continue
                    if any("%s__%s" % (x, f_) in own_names for f_ in fields):
                        continue
                    occ = [n for n in walk_own(fi.node) if isinstance(n, ast.Name) and n.id == x and n is not st.targets[0]]
                    plan = []
                    ok = True
                    for n in occ:
                        par = getattr(n, "_parent", None)
                        if not isinstance(n.ctx, ast.Load):
                            ok = False
                        elif isinstance(par, ast.Attribute) and par.value is n and par.attr in fields and isinstance(par.ctx, ast.Load):
                            plan.append(("attr", par, par.attr))
                        elif isinstance(par, ast.Subscript) and par.value is n and isinstance(par.slice, ast.Constant) and isinstance(par.slice.value, int) \
                                and 0 <= par.slice.value < len(fields) and isinstance(par.ctx, ast.Load):
                            plan.append(("attr", par, fields[par.slice.value]))
                        elif isinstance(par, ast.Starred) and isinstance(getattr(par, "_parent", None), ast.Call) and par in par._parent.args:
                            plan.append(("star", par, None))
                        else:
                            ok = False
                    if not ok:
                        continue
                    for kind, node, f_ in plan:
                        if kind == "attr":
                            _install(node, ast.parse("%s__%s" % (x, f_), mode="eval").body)
                        else:
                            call = node._parent
                            k = [j for j, a_ in enumerate(call.args) if a_ is node][0]
                            new_args = [ast.parse("%s__%s" % (x, f_), mode="eval").body for f_ in fields]
                            for a_ in new_args:
                                ast.copy_location(a_, node)
                                a_._parent = call
                            call.args[k:k + 1] = new_args
                            _invalidate(call)
                    new = [y for src in srcs for y in _fresh_stmt(src, st, owner)]
                    idx = [j for j, s_ in enumerate(blk) if s_ is st][0]
                    blk[idx:idx + 1] = new
                    _invalidate(owner)
                    done.setdefault(q, []).append(x)
    return done


def merge_adjacent_packs(repo, ref):
    """struct.pack(">A", a) + struct.pack(">B", b)  is  struct.pack(">AB", a, b): with an explicit byte order there is no alignment,
    the arguments are evaluated in the same order and the same values are converted by the same codes"""
    done = {}

    def literal_pack(e):
        if isinstance(e, ast.Call) and ast.unparse(e.func) == "struct.pack" and e.args and not e.keywords and isinstance(e.args[0], ast.Constant) \
                and isinstance(e.args[0].value, str) and e.args[0].value[:1] in (">", "<", "!", "=") and not any(isinstance(a_, ast.Starred) for a_ in e.args):
            return e.args[0].value
        return None
    for q, fi in repo.funcs.items():
        if fi.is_lambda or q not in ref:
            continue
        progress = True
        while progress:
            progress = False
            for n in walk_own(fi.node):
                if isinstance(n, ast.BinOp) and isinstance(n.op, ast.Add):
                    f1, f2 = literal_pack(n.left), literal_pack(n.right)
                    if f1 and f2 and f1[0] == f2[0]:
                        new = ast.parse("struct.pack(%r)" % (f1 + f2[1:]), mode="eval").body
                        new.args += n.left.args[1:] + n.right.args[1:]
                        _install(n, new)
                        done[q] = done.get(q, 0) + 1
                        progress = True
                        break
    if done:
        _clear_analysis_caches()
    return done


def expand_struct_objects(repo, ref):
    """X.pack(a, b) / X.unpack(d) / X.size for a module-level or class-level X bound once to struct.Struct(<literal format>)
    is struct.pack(<format>, a, b) / struct.unpack(<format>, d) / struct.calcsize(<format>): a precompiled format is only
    another spelling of the format string"""
    done = {}
    objs = {}
    for m in repo.modules.values():
        scopes = [(None, m.tree.body)] + [(c.name, c.body) for c in m.tree.body if isinstance(c, ast.ClassDef)]
        for cname, body in scopes:
            count = {}
            for st in body:
                for x in ast.walk(st) if not isinstance(st, (ast.FunctionDef, ast.AsyncFunctionDef, ast.ClassDef)) else []:
                    if isinstance(x, ast.Name) and isinstance(x.ctx, (ast.Store, ast.Del)):
                        count[x.id] = count.get(x.id, 0) + 1
            for st in body:
                if isinstance(st, ast.Assign) and len(st.targets) == 1 and isinstance(st.targets[0], ast.Name) and isinstance(st.value, ast.Call) \
                        and ast.unparse(st.value.func) in ("struct.Struct", "Struct") and len(st.value.args) == 1 and not st.value.keywords \
                        and isinstance(st.value.args[0], ast.Constant) and isinstance(st.value.args[0].value, str) and count.get(st.targets[0].id) == 1:
                    objs[(m.name, cname, st.targets[0].id)] = st.value.args[0].value
    if not objs:
        return done
    globals_written = {n for m in repo.modules.values() for x in ast.walk(m.tree) if isinstance(x, ast.Global) for n in x.names}
    for q, fi in repo.funcs.items():
        if fi.is_lambda or q not in ref:
            continue
        own = {n for n, _ in _bound_names(fi.node)[0]} | set(fi.params)
        for n in list(walk_own(fi.node)):
            if not isinstance(n, ast.Attribute) or n.attr not in ("pack", "unpack", "unpack_from", "pack_into", "size", "iter_unpack"):
                continue
            v = n.value
            key = None
            if isinstance(v, ast.Name) and v.id not in own and v.id not in globals_written:
                key = (fi.module.name, None, v.id)
            elif isinstance(v, ast.Attribute) and isinstance(v.value, ast.Name):
                if v.value.id in ("self", "cls") and fi.cls is not None:
                    key = (fi.module.name, fi.cls.name, v.attr)
                else:
                    key = (fi.module.name, v.value.id, v.attr)
            fmt = objs.get(key)
            if fmt is None:
                continue
            p_ = getattr(n, "_parent", None)
            if n.attr == "size":
                _install(n, ast.parse("struct.calcsize(%r)" % fmt, mode="eval").body)
            elif isinstance(p_, ast.Call) and p_.func is n:
                new = ast.parse("struct.%s(%r)" % (n.attr, fmt), mode="eval").body
                new.args += p_.args
                new.keywords = p_.keywords
                _install(p_, new)
            else:
                continue
            done.setdefault(q, []).append(key[2])
    if done:
        _clear_analysis_caches()
    return done


def _mapping_mutators(repo, chain):
    """functions that store into / delete from / clear the mapping named by the chain's last attribute (by name)"""
    name = chain[-1]
    out = set()
    for q, fi in repo.funcs.items():
        for n in walk_own(fi.node):
            if isinstance(n, (ast.Assign, ast.Delete)):
                for t in n.targets:
                    if isinstance(t, ast.Subscript):
                        c2 = _chain(t.value)
                        if c2 is not None and c2[-1] == name:
                            out.add(q)
                    c = _chain(t)
                    if c is not None and c[-1] == name and len(c) > 1 and fi.name != "__init__":
                        out.add(q)
            elif isinstance(n, ast.Call) and isinstance(n.func, ast.Attribute) and n.func.attr in ("update", "setdefault", "pop", "popitem", "clear", "__setitem__"):
                c = _chain(n.func.value)
                if c is not None and c[-1] == name:
                    out.add(q)
    return out


def _module_constant_tuples(repo, mod):
    """{NAME: [element ast]} for module-level NAME = (<constants>) bound once and never declared global"""
    cached = getattr(mod, "_const_tuples", None)
    if cached is not None:
        return cached
    count = {}
    for st in mod.tree.body:
        for x in ast.walk(st) if not isinstance(st, (ast.FunctionDef, ast.AsyncFunctionDef, ast.ClassDef)) else []:
            if isinstance(x, ast.Name) and isinstance(x.ctx, (ast.Store, ast.Del)):
                count[x.id] = count.get(x.id, 0) + 1
    written = {n for x in ast.walk(mod.tree) if isinstance(x, ast.Global) for n in x.names}
    out = {}
    for st in mod.tree.body:
        if isinstance(st, ast.Assign) and len(st.targets) == 1 and isinstance(st.targets[0], ast.Name) and isinstance(st.value, (ast.Tuple, ast.List)) \
                and all(isinstance(e, ast.Constant) for e in st.value.elts) and count.get(st.targets[0].id) == 1 and st.targets[0].id not in written:
            out[st.targets[0].id] = list(st.value.elts)
    mod._const_tuples = out
    return out


def expand_star_forms(repo, ref):
    """three spellings that hide a fixed number of values behind a star or a tuple:
    f(a, *T, b) for a module-level constant tuple T is f(a, t0, t1, t2, b);
    *c, a, b = struct.unpack(<literal format of n fields>, x) with c only ever used as *c in calls is c_0, .., a, b = ... and the
    uses are c_0, ..;
    (a, b) != (c, d) over call-free operands is a != c or b != d (== gives `and`)."""
    import struct as _struct
    done = {}
    for q, fi in repo.funcs.items():
        if fi.is_lambda or q not in ref:
            continue
        own = {n for n, _ in _bound_names(fi.node)[0]} | set(fi.params)
        consts = _module_constant_tuples(repo, fi.module)
        n_done = 0
        # starred targets of a struct.unpack with a literal format
        for st in [n for n in walk_own(fi.node) if isinstance(n, ast.Assign)]:
            if len(st.targets) == 1 and isinstance(st.targets[0], ast.Tuple) and sum(isinstance(e, ast.Starred) for e in st.targets[0].elts) == 1 \
                    and isinstance(st.value, ast.Call) and ast.unparse(st.value.func) == "struct.unpack" and st.value.args and isinstance(st.value.args[0], ast.Constant) \
                    and isinstance(st.value.args[0].value, str):
                try:
                    arity = len(_struct.unpack(st.value.args[0].value, bytes(_struct.calcsize(st.value.args[0].value))))
                except Exception:
                    continue
                elts = st.targets[0].elts
                k = [i for i, e in enumerate(elts) if isinstance(e, ast.Starred)][0]
                if not isinstance(elts[k].value, ast.Name):
                    continue
                name = elts[k].value.id
                width = arity - (len(elts) - 1)
                if width < 0:
                    continue
                occ = [n for n in walk_own(fi.node) if isinstance(n, ast.Name) and n.id == name]
                loads = [n for n in occ if isinstance(n.ctx, ast.Load)]
                if len(occ) - len(loads) != 1:
                    continue
                if not all(isinstance(getattr(n, "_parent", None), ast.Starred) and isinstance(getattr(n._parent, "_parent", None), ast.Call)
                           and any(a is n._parent for a in n._parent._parent.args) for n in loads):
                    continue
                parts = ["%s_%d" % (name, i) for i in range(width)]
                if any(p_ in own for p_ in parts):
                    continue
                for n in loads:
                    call = n._parent._parent
                    idx = [i for i, a in enumerate(call.args) if a is n._parent][0]
                    new_args = [ast.Name(id=p_, ctx=ast.Load()) for p_ in parts]
                    for a_ in new_args:
                        ast.copy_location(a_, n)
                        a_._parent = call
                    call.args[idx:idx + 1] = new_args
                    _invalidate(call)
                new_t = [ast.Name(id=p_, ctx=ast.Store()) for p_ in parts]
                for a_ in new_t:
                    ast.copy_location(a_, elts[k])
                    a_._parent = st.targets[0]
                elts[k:k + 1] = new_t
                _invalidate(st)
                n_done += 1
        # constant star arguments
        for c in [n for n in walk_own(fi.node) if isinstance(n, ast.Call)]:
            i = 0
            while i < len(c.args):
                a_ = c.args[i]
                if isinstance(a_, ast.Starred) and isinstance(a_.value, ast.Name) and a_.value.id in consts and a_.value.id not in own:
                    new_args = [ast.parse(ast.unparse(e), mode="eval").body for e in consts[a_.value.id]]
                    for x in new_args:
                        for y in ast.walk(x):
                            ast.copy_location(y, a_)
                        x._parent = c
                    c.args[i:i + 1] = new_args
                    i += len(new_args)
                    _invalidate(c)
                    n_done += 1
                else:
                    i += 1
        # comparisons of two tuple displays
        for cmp_ in [n for n in walk_own(fi.node) if isinstance(n, ast.Compare)]:
            if len(cmp_.ops) == 1 and isinstance(cmp_.ops[0], (ast.Eq, ast.NotEq)) and isinstance(cmp_.left, ast.Tuple) and isinstance(cmp_.comparators[0], ast.Tuple) \
                    and len(cmp_.left.elts) == len(cmp_.comparators[0].elts) >= 2 and getattr(cmp_, "_parent", None) is not None:
                ops = cmp_.left.elts + cmp_.comparators[0].elts
                if any(isinstance(x, ast.Starred) for x in ops):
                    continue
                # operands without effects: names, constants, attribute chains, len() of such
                def plain(e):
                    if isinstance(e, (ast.Name, ast.Constant)) or _chain(e) is not None:
                        return True
                    return isinstance(e, ast.Call) and isinstance(e.func, ast.Name) and e.func.id == "len" and len(e.args) == 1 and not e.keywords and plain(e.args[0])
                if not all(plain(e) for e in ops):
                    continue
                sym, join = ("!=", " or ") if isinstance(cmp_.ops[0], ast.NotEq) else ("==", " and ")
                txt = join.join("%s %s %s" % (ast.unparse(l), sym, ast.unparse(r)) for l, r in zip(cmp_.left.elts, cmp_.comparators[0].elts))
                _install(cmp_, ast.parse("(%s)" % txt, mode="eval").body)
                n_done += 1
        if n_done:
            done[q] = n_done
    if done:
        _clear_analysis_caches()
    return done


def _never_none_mapping(repo, chain):
    """the mapping named by the chain (module global X, or self.X) only ever holds values that are not None: every binding of X
    in the package is a dict display / dict() / defaultdict(...) whose values are displays, lambdas, non-None constants or names of
    module-level functions and classes, and every subscript store X[k] = v has such a v.  Returns the set of functions that
    mutate the mapping (for the stability test), or None when the values cannot be vouched for."""
    name = chain[-1]
    if not (len(chain) == 1 or chain[0] == "self"):
        return None
    defined = set()
    for m in repo.modules.values():
        for st in m.tree.body:
            if isinstance(st, (ast.FunctionDef, ast.ClassDef)):
                defined.add(st.name)

    classes = {c.name for m in repo.modules.values() for c in m.tree.body if isinstance(c, ast.ClassDef)}

    def value_ok(v, stmt=None, fi_=None):
        if isinstance(v, ast.Constant):
            return v.value is not None
        if isinstance(v, (ast.List, ast.Dict, ast.Set, ast.Tuple, ast.Lambda, ast.ListComp, ast.DictComp, ast.SetComp, ast.JoinedStr)):
            return True
        if isinstance(v, ast.Call) and isinstance(v.func, ast.Name) and v.func.id in classes:
            return True         # a constructor call
        if isinstance(v, ast.Name):
            if v.id in defined:
                return True
            # the storing statement itself dereferences the name (d[x.addr] = x): None would have raised before the store
            if stmt is not None and any(isinstance(x, ast.Attribute) and isinstance(x.value, ast.Name) and x.value.id == v.id for x in ast.walk(stmt)):
                return True
            # the nearest preceding statement of the same block that binds the name binds it to such a value
            if stmt is not None:
                blk_, idx_ = _block_of(stmt)
                if blk_ is not None:
                    for k_ in range(idx_ - 1, -1, -1):
                        p_ = blk_[k_]
                        if isinstance(p_, ast.Assign) and len(p_.targets) == 1 and isinstance(p_.targets[0], ast.Name) and p_.targets[0].id == v.id:
                            if value_ok(p_.value):
                                return True
                            break
                        if any(isinstance(x, ast.Name) and x.id == v.id and isinstance(x.ctx, (ast.Store, ast.Del)) for x in ast.walk(p_)):
                            break
            # every binding of the local in the function is a constructor call
            if fi_ is not None:
                binds = [n for n in walk_own(fi_.node) if isinstance(n, ast.Name) and n.id == v.id and isinstance(n.ctx, ast.Store)]
                if binds and v.id not in fi_.params and all(isinstance(getattr(b_, "_parent", None), ast.Assign) and len(b_._parent.targets) == 1 and b_._parent.targets[0] is b_
                                                              and value_ok(b_._parent.value) for b_ in binds):
                    return True
            return False
        if isinstance(v, ast.Call) and isinstance(v.func, ast.Name) and v.func.id in ("list", "dict", "set", "tuple", "int", "str", "bytes", "re.compile"):
            return True
        return False
    mutators = set()
    bound = 0
    for q, fi in list(repo.funcs.items()) + [(None, None)]:
        nodes = walk_own(fi.node) if fi is not None else [n for m in repo.modules.values() for st in m.tree.body if not isinstance(st, (ast.FunctionDef, ast.ClassDef)) for n in ast.walk(st)]
        for n in nodes:
            tgt = None
            if isinstance(n, ast.Assign):
                for t in n.targets:
                    c = _chain(t)
                    if c is not None and c[-1] == name and (len(c) > 1) == (len(chain) > 1):
                        bound += 1
                        v = n.value
                        if isinstance(v, ast.Dict):
                            if not all(value_ok(x) for x in v.values):
                                return None
                        elif isinstance(v, ast.Call) and ast.unparse(v.func) in ("dict", "defaultdict", "collections.defaultdict", "OrderedDict") and not v.keywords and len(v.args) <= 1:
                            pass
                        else:
                            return None
                    if isinstance(t, ast.Subscript):
                        c2 = _chain(t.value)
                        if c2 is not None and c2[-1] == name:
                            if not value_ok(n.value, n, fi):
                                return None
                            if q is not None:
                                mutators.add(q)
            elif isinstance(n, (ast.AugAssign, ast.AnnAssign)):
                c = _chain(n.target)
                if c is not None and c[-1] == name:
                    return None
            elif isinstance(n, ast.Call) and isinstance(n.func, ast.Attribute) and n.func.attr in ("update", "setdefault", "pop", "popitem", "clear", "__setitem__"):
                c = _chain(n.func.value)
                if c is not None and c[-1] == name:
                    if n.func.attr in ("update", "setdefault", "__setitem__"):
                        return None
                    if q is not None:
                        mutators.add(q)
            elif isinstance(n, ast.Delete):
                for t in n.targets:
                    if isinstance(t, ast.Subscript):
                        c2 = _chain(t.value)
                        if c2 is not None and c2[-1] == name and q is not None:
                            mutators.add(q)
    if bound == 0:
        return None
    return mutators


def _sentinels(repo, mod):
    """module-level names bound once to object() and used only as the default of .get / getattr and in `is` / `is not` tests:
    a private 'absent' marker that can never be a stored value"""
    cached = getattr(mod, "_sentinel_names", None)
    if cached is not None:
        return cached
    cands = set()
    count = {}
    for st in mod.tree.body:
        if isinstance(st, ast.Assign) and len(st.targets) == 1 and isinstance(st.targets[0], ast.Name):
            count[st.targets[0].id] = count.get(st.targets[0].id, 0) + 1
            if isinstance(st.value, ast.Call) and isinstance(st.value.func, ast.Name) and st.value.func.id == "object" and not st.value.args and not st.value.keywords:
                cands.add(st.targets[0].id)
    out = set()
    for name in cands:
        if count.get(name) != 1:
            continue
        ok = True
        for n in ast.walk(mod.tree):
            if isinstance(n, ast.Name) and n.id == name and isinstance(n.ctx, ast.Load):
                p_ = getattr(n, "_parent", None)
                if isinstance(p_, ast.Compare) and len(p_.ops) == 1 and isinstance(p_.ops[0], (ast.Is, ast.IsNot)) and p_.comparators[0] is n:
                    continue
                if isinstance(p_, ast.Call) and p_.args and p_.args[-1] is n and ((isinstance(p_.func, ast.Attribute) and p_.func.attr == "get" and len(p_.args) == 2)
                                                                                 or (isinstance(p_.func, ast.Name) and p_.func.id == "getattr" and len(p_.args) == 3)):
                    continue
                ok = False
            elif isinstance(n, ast.Name) and n.id == name and isinstance(n.ctx, (ast.Store, ast.Del)) and not isinstance(getattr(n, "_parent", None), ast.Assign):
                ok = False
            elif isinstance(n, ast.Global) and name in n.names:
                ok = False
        if ok:
            out.add(name)
    mod._sentinel_names = out
    return out


def _absent_marker(repo, fi, call):
    """what D.get(k[, default]) returns for a missing key: 'None', a sentinel name, or False when it is something else"""
    if len(call.args) == 1:
        return "None"
    d = call.args[1]
    if isinstance(d, ast.Constant) and d.value is None:
        return "None"
    if isinstance(d, ast.Name) and d.id in _sentinels(repo, fi.module):
        return d.id
    return False


def _is_marker(e, marker):
    if marker == "None":
        return isinstance(e, ast.Constant) and e.value is None
    return isinstance(e, ast.Name) and e.id == marker


def sentinel_getattr_guards(repo, ref):
    """w = getattr(o, "name", S)          if hasattr(o, "name"):
       if w is not S:            ->            w = o.name
           B                                   B
    for a sentinel S (see _sentinels) and a local o: hasattr is getattr catching AttributeError, exactly what the three-argument
    form does; (also the `is S` polarity with a leaving suite, as in dict_get_guards)"""
    done = {}
    for q, fi in repo.funcs.items():
        if fi.is_lambda or q not in ref:
            continue
        sents = _sentinels(repo, fi.module)
        if not sents:
            continue
        changed = True
        while changed:
            changed = False
            for owner, field, blk in _blocks(fi.node):
                for i in range(len(blk) - 1):
                    st, nx = blk[i], blk[i + 1]
                    if not (isinstance(st, ast.Assign) and len(st.targets) == 1 and isinstance(st.targets[0], ast.Name) and isinstance(st.value, ast.Call)
                            and isinstance(st.value.func, ast.Name) and st.value.func.id == "getattr" and len(st.value.args) == 3 and not st.value.keywords
                            and isinstance(st.value.args[0], ast.Name) and isinstance(st.value.args[1], ast.Constant) and isinstance(st.value.args[1].value, str)
                            and st.value.args[1].value.isidentifier() and isinstance(st.value.args[2], ast.Name) and st.value.args[2].id in sents):
                        continue
                    w, o, attr, S = st.targets[0].id, st.value.args[0].id, st.value.args[1].value, st.value.args[2].id
                    if w == o:
                        continue
                    if not (isinstance(nx, ast.If) and isinstance(nx.test, ast.Compare) and len(nx.test.ops) == 1 and isinstance(nx.test.ops[0], (ast.Is, ast.IsNot))
                            and isinstance(nx.test.left, ast.Name) and nx.test.left.id == w and _is_marker(nx.test.comparators[0], S)):
                        continue
                    present_first = isinstance(nx.test.ops[0], ast.IsNot)
                    absent = nx.orelse if present_first else nx.body
                    if any(isinstance(x, ast.Name) and x.id == w and isinstance(x.ctx, ast.Load) for s_ in absent for x in ast.walk(s_)):
                        continue
                    rest = blk[i + 2:]
                    if any(isinstance(x, ast.Name) and x.id == w and isinstance(x.ctx, ast.Load) for s_ in rest for x in ast.walk(s_)) and present_first:
                        continue
                    bind = ast.parse("%s = %s.%s" % (w, o, attr)).body[0]
                    if present_first:
                        new_if = ast.parse("if hasattr(%s, %r):\n    pass" % (o, attr)).body[0]
                        new_if.body = [bind] + nx.body
                        new_if.orelse = nx.orelse
                        fresh = [new_if]
                    else:
                        if not _always_leaves(nx.body) and not nx.orelse:
                            continue
                        new_if = ast.parse("if not hasattr(%s, %r):\n    pass" % (o, attr)).body[0]
                        new_if.body = nx.body
                        if nx.orelse:
                            new_if.orelse = [bind] + nx.orelse
                            fresh = [new_if]
                        else:
                            fresh = [new_if, bind]
                    for s_ in fresh:
                        ast.fix_missing_locations(s_)
                    fresh = ast.parse("\n".join(ast.unparse(s_) for s_ in fresh)).body
                    for s_ in fresh:
                        for y in ast.walk(s_):
                            ast.copy_location(y, st)
                            for ch_ in ast.iter_child_nodes(y):
                                ch_._parent = y
                        s_._parent = owner
                    blk[i:i + 2] = fresh
                    _invalidate(owner)
                    done.setdefault(q, []).append(w)
                    changed = True
                    break
                if changed:
                    break
    if done:
        _clear_analysis_caches()
    return done


def dict_get_guards(repo, ref):
    """w = D.get(k)                       if k in D:                  w = D.get(k)                  if k not in D:
       if w is not None:        ->            w = D[k]                if w is None:        ->           A        (A leaves)
           B                                  B                           A   (A leaves)            w = D[k]
       else:                              else:
           C                                  C
    for a mapping D whose values are never None (see _never_none_mapping), a key that is a name or constant, D an attribute chain
    (reading it twice has no effect), C not reading the w bound here.  The lookup and its test are adjacent, so nothing can
    change the mapping between them; w is bound once, at the point where the original bound it to the same object."""
    done = {}
    for q, fi in repo.funcs.items():
        if fi.is_lambda or q not in ref:
            continue
        changed = True
        while changed:
            changed = False
            for owner, field, blk in _blocks(fi.node):
                for i in range(len(blk) - 1):
                    st, nx = blk[i], blk[i + 1]
                    if not (isinstance(st, ast.Assign) and len(st.targets) == 1 and isinstance(st.targets[0], ast.Name) and isinstance(st.value, ast.Call)
                            and isinstance(st.value.func, ast.Attribute) and st.value.func.attr == "get" and not st.value.keywords and 1 <= len(st.value.args) <= 2):
                        continue
                    marker = _absent_marker(repo, fi, st.value)
                    if marker is False:
                        continue
                    w = st.targets[0].id
                    key = st.value.args[0]
                    dch = _chain(st.value.func.value)
                    if dch is None or not isinstance(key, (ast.Name, ast.Constant)) or (isinstance(key, ast.Name) and key.id == w):
                        continue
                    if not (isinstance(nx, ast.If) and isinstance(nx.test, ast.Compare) and len(nx.test.ops) == 1 and isinstance(nx.test.ops[0], (ast.Is, ast.IsNot))
                            and isinstance(nx.test.left, ast.Name) and nx.test.left.id == w and _is_marker(nx.test.comparators[0], marker)):
                        continue
                    if marker == "None" and _never_none_mapping(repo, dch) is None:
                        continue
                    present_first = isinstance(nx.test.ops[0], ast.IsNot)
                    dtxt, ktxt = ast.unparse(st.value.func.value), ast.unparse(key)
                    absent = nx.orelse if present_first else nx.body
                    # the absent suite must not read the None bound here (it may rebind w first: then its reads see its own binding)
                    def reads_before_store(stmts):
                        for s_ in stmts:
                            for x in ast.walk(s_):
                                if isinstance(x, ast.Name) and x.id == w and isinstance(x.ctx, ast.Load):
                                    # a store of w earlier in document order within the suite?
                                    if not any(isinstance(y, ast.Name) and y.id == w and isinstance(y.ctx, ast.Store) and _pos(y) < _pos(x) for s2 in stmts for y in ast.walk(s2)):
                                        return True
                        return False
                    if reads_before_store(absent):
                        continue
                    bind = "%s = %s[%s]" % (w, dtxt, ktxt)
                    if present_first:
                        # reads of w after the if statement (it has no else, or the else falls through) would see None on the absent path
                        rest = blk[i + 2:]
                        if reads_before_store(rest) and not (nx.orelse and _always_leaves(nx.orelse)):
                            continue
                        new_if = ast.parse("if %s in %s:\n    %s\n    pass" % (ktxt, dtxt, bind)).body[0]
                        new_if.body = [new_if.body[0]] + nx.body
                        new_if.orelse = nx.orelse
                        fresh = [new_if]
                    else:
                        if not _always_leaves(nx.body) and not nx.orelse:
                            continue
                        new_if = ast.parse("if %s not in %s:\n    pass" % (ktxt, dtxt)).body[0]
                        new_if.body = nx.body
                        b_ = ast.parse(bind).body[0]
                        if nx.orelse:
                            new_if.orelse = [b_] + nx.orelse
                            fresh = [new_if]
                        else:
                            new_if.orelse = []
                            fresh = [new_if, b_]
                    for s_ in fresh:
                        ast.fix_missing_locations(s_)
                    fresh = ast.parse("\n".join(ast.unparse(s_) for s_ in fresh)).body
                    for s_ in fresh:
                        for y in ast.walk(s_):
                            ast.copy_location(y, st)
                            for ch_ in ast.iter_child_nodes(y):
                                ch_._parent = y
                        s_._parent = owner
                    blk[i:i + 2] = fresh
                    _invalidate(owner)
                    done.setdefault(q, []).append(w)
                    changed = True
                    break
                if changed:
                    break
    if done:
        _clear_analysis_caches()
    return done


def dict_get_to_membership(repo, ref):
    """w = D.get(k)  with every test of w spelled `w is None` / `w is not None`:   the tests become `k not in D` / `k in D` and the
    other reads of w become D[k], for a new local w, a key k that is a name bound once (or a constant), a mapping D whose values
    are never None (see _never_none_mapping) and that nothing can mutate between the lookup and the reads (call graph)."""
    done = {}
    cg = None
    for q, fi in repo.funcs.items():
        if fi.is_lambda or q not in ref:
            continue
        ref_locals = {n for n, _ in ref[q]["locals"]} | set(ref[q]["params"])
        for owner, field, blk in _blocks(fi.node):
            for idx, st in enumerate(list(blk)):
                if not (isinstance(st, ast.Assign) and len(st.targets) == 1 and isinstance(st.targets[0], ast.Name) and isinstance(st.value, ast.Call)
                        and isinstance(st.value.func, ast.Attribute) and st.value.func.attr == "get" and not st.value.keywords and 1 <= len(st.value.args) <= 2):
                    continue
                marker = _absent_marker(repo, fi, st.value)
                if marker is False:
                    continue
                w = st.targets[0].id
                if w in ref_locals:
                    continue
                dch = _chain(st.value.func.value)
                key = st.value.args[0]
                if dch is None or not isinstance(key, (ast.Name, ast.Constant)):
                    continue
                occ = [n for n in walk_own(fi.node) if isinstance(n, ast.Name) and n.id == w]
                loads = [n for n in occ if isinstance(n.ctx, ast.Load)]
                if len(occ) - len(loads) != 1 or not loads:
                    continue
                if isinstance(key, ast.Name):
                    kst = [n for n in walk_own(fi.node) if isinstance(n, ast.Name) and n.id == key.id and isinstance(n.ctx, (ast.Store, ast.Del))]
                    if len(kst) > 1 or (len(kst) == 1 and _pos(kst[0]) > _pos(st)):
                        continue
                    if len(kst) == 1 and any(isinstance(a_, (ast.For, ast.While)) for a_ in _ancestors(kst[0], fi.node)):
                        continue
                later = {id(x) for s_ in blk[blk.index(st) + 1:] for x in ast.walk(s_)}
                if not all(id(x) in later for x in loads):
                    continue
                mut = _never_none_mapping(repo, dch)
                if mut is None and marker != "None":
                    mut = _mapping_mutators(repo, dch)
                if mut is None:
                    continue
                if q in mut:
                    continue
                if mut:
                    if cg is None:
                        from .callgraph import CallGraph
                        cg = CallGraph(repo)
                    calls = [c for s_ in blk[blk.index(st) + 1:] for c in ast.walk(s_) if isinstance(c, ast.Call)]
                    direct = {e.callee.qual for e in cg.callees(q) if any(e.call is c for c in calls)}
                    reach = set(cg.reachable(sorted(direct))) | direct if direct else set()
                    if reach & mut:
                        continue
                dtxt, ktxt = ast.unparse(st.value.func.value), ast.unparse(key)
                tests, reads = [], []
                ok = True
                for x in loads:
                    p_ = getattr(x, "_parent", None)
                    if isinstance(p_, ast.Compare) and p_.left is x and len(p_.ops) == 1 and isinstance(p_.ops[0], (ast.Is, ast.IsNot)) \
                            and _is_marker(p_.comparators[0], marker):
                        tests.append(p_)
                    else:
                        reads.append(x)
                if not tests:
                    continue
                for p_ in tests:
                    _install(p_, ast.parse("%s %s %s" % (ktxt, "not in" if isinstance(p_.ops[0], ast.Is) else "in", dtxt), mode="eval").body)
                for x in reads:
                    _install(x, ast.parse("%s[%s]" % (dtxt, ktxt), mode="eval").body)
                if len(blk) > 1:
                    blk.remove(st)
                _invalidate(fi.node)
                done.setdefault(q, []).append(w)
    if done:
        _clear_analysis_caches()
    return done


def _table_literals(repo):
    """{(class name or None, NAME): [element ast, ...]} for NAME = (<literal rows>) bound exactly once in a class body / at
    module level where nothing in the package stores an attribute or global of that name: a dispatch table"""
    cached = getattr(repo, "_table_literals", None)
    if cached is not None:
        return cached
    stored = set()
    for m in repo.modules.values():
        for n in ast.walk(m.tree):
            if isinstance(n, ast.Attribute) and isinstance(n.ctx, (ast.Store, ast.Del)):
                stored.add(n.attr)
            if isinstance(n, ast.Global):
                stored |= set(n.names)
            if isinstance(n, ast.Call) and isinstance(n.func, ast.Name) and n.func.id in ("setattr", "delattr") and len(n.args) >= 2 and isinstance(n.args[1], ast.Constant):
                stored.add(n.args[1].value)

    def simple(e):
        if isinstance(e, (ast.Constant, ast.Name)):
            return True
        if isinstance(e, ast.Attribute):
            return simple(e.value)
        return False
    out = {}
    for m in repo.modules.values():
        scopes = [(None, m.tree.body)] + [(c.name, c.body) for c in m.tree.body if isinstance(c, ast.ClassDef)]
        for cname, body in scopes:
            count = {}
            for st in body:
                for t in (st.targets if isinstance(st, ast.Assign) else [st.target] if isinstance(st, (ast.AugAssign, ast.AnnAssign)) else []):
                    for x in ast.walk(t):
                        if isinstance(x, ast.Name):
                            count[x.id] = count.get(x.id, 0) + 1
            for st in body:
                if isinstance(st, ast.Assign) and len(st.targets) == 1 and isinstance(st.targets[0], ast.Name) and isinstance(st.value, (ast.Tuple, ast.List)):
                    name = st.targets[0].id
                    if count.get(name) != 1 or name in stored:
                        continue
                    rows = st.value.elts
                    if all(simple(r) or (isinstance(r, ast.Tuple) and all(simple(x) for x in r.elts)) for r in rows):
                        out[(m.name, cname, name)] = rows
    repo._table_literals = out
    return out


def unroll_constant_tables(repo, ref):
    """`for a, b in self.TABLE: BODY` over a literal class-level / module-level table that nothing ever rebinds is BODY once per
    row with the row's entries in place of a and b (no break / continue in BODY, the loop variables are not used afterwards);
    getattr(x, "name") with a literal name is x.name.  A table-driven dispatch becomes the if-chain it abbreviates."""
    tables = _table_literals(repo)
    done = {}
    for q, fi in repo.funcs.items():
        if fi.is_lambda or q not in ref:
            continue
        for owner, field, blk in _blocks(fi.node):
            i = 0
            while i < len(blk):
                st = blk[i]
                i += 1
                if not (isinstance(st, ast.For) and not st.orelse):
                    continue
                it = st.iter
                key = None
                if isinstance(it, ast.Attribute) and isinstance(it.value, ast.Name):
                    if it.value.id in ("self", "cls") and fi.cls is not None and fi.params and fi.params[0] == it.value.id:
                        key = (fi.module.name, fi.cls.name, it.attr)
                    else:
                        key = (fi.module.name, it.value.id, it.attr)
                elif isinstance(it, ast.Name):
                    key = (fi.module.name, None, it.id)
                rows = tables.get(key)
                prelude, drop_prev = [], False
                if rows is None and isinstance(it, ast.Name) and i >= 2 and isinstance(blk[i - 2], ast.Assign) and len(blk[i - 2].targets) == 1 \
                        and isinstance(blk[i - 2].targets[0], ast.Name) and blk[i - 2].targets[0].id == it.id and isinstance(blk[i - 2].value, (ast.Tuple, ast.List)) \
                        and sum(1 for x in walk_own(fi.node) if isinstance(x, ast.Name) and x.id == it.id) == 2 and it.id not in fi.params:
                    # envelope = (a, b, c) bound in the statement before, for this loop only
                    it = blk[i - 2].value
                    drop_prev = True
                if rows is None and isinstance(it, (ast.Tuple, ast.List)) and 1 <= len(it.elts) <= 4 and not any(isinstance(e_, ast.Starred) for e_ in it.elts) \
                        and not all(isinstance(e_, (ast.Name, ast.Constant)) for e_ in it.elts) and isinstance(st.target, ast.Name) \
                        and not any(isinstance(x, (ast.Await, ast.Yield, ast.YieldFrom, ast.NamedExpr, ast.Lambda)) for e_ in it.elts for x in ast.walk(e_)):
                    # a display of arbitrary expressions: the display is evaluated before the first iteration - each element that is not a
                    # plain name is bound to a temporary first, in order (single-use temporaries are folded later where that is exact)
                    rows = []
                    for k_, e_ in enumerate(it.elts):
                        if isinstance(e_, (ast.Name, ast.Constant)):
                            rows.append(e_)
                        else:
                            tname = "_u%d_%s" % (k_ + 1, st.target.id)
                            prelude.append("%s = %s" % (tname, ast.unparse(e_)))
                            rows.append(ast.Name(id=tname, ctx=ast.Load()))
                    names_in = {x.id for e_ in it.elts for x in ast.walk(e_) if isinstance(x, ast.Name) and isinstance(e_, ast.Name)}
                    if any(isinstance(x, ast.Name) and x.id in names_in and isinstance(x.ctx, (ast.Store, ast.Del)) for s_ in st.body for x in ast.walk(s_)):
                        rows, prelude = None, []
                    else:
                        key = (fi.module.name, None, "<display>")
                if rows is None and isinstance(it, (ast.Tuple, ast.List)) and it.elts and all(isinstance(e_, (ast.Name, ast.Constant)) or _chain(e_) is not None for e_ in it.elts):
                    # a display of names / constants written in place: for v in (a, b, c) - the names must not be rebound in the body
                    names_in = {x.id for e_ in it.elts for x in ast.walk(e_) if isinstance(x, ast.Name)}
                    if not any(isinstance(x, ast.Name) and x.id in names_in and isinstance(x.ctx, (ast.Store, ast.Del)) for s_ in st.body for x in ast.walk(s_)) \
                            and not any(isinstance(x, ast.Call) for e_ in it.elts for x in ast.walk(e_)) and len(it.elts) <= 8 \
                            and all(isinstance(e_, (ast.Name, ast.Constant)) for e_ in it.elts):
                        rows = list(it.elts)
                        key = (fi.module.name, None, "<display>")
                if rows is None and isinstance(it, ast.Call) and isinstance(it.func, ast.Attribute) and it.func.attr == "items" and not it.args and not it.keywords \
                        and isinstance(it.func.value, ast.Dict) and len(it.func.value.keys) <= 8 \
                        and all(isinstance(k_, ast.Constant) and isinstance(k_.value, str) for k_ in it.func.value.keys) \
                        and len({k_.value for k_ in it.func.value.keys}) == len(it.func.value.keys) and all(isinstance(v_, (ast.Name, ast.Constant)) for v_ in it.func.value.values):
                    # the items of a dictionary display with distinct literal keys, in the order written
                    names_in = {v_.id for v_ in it.func.value.values if isinstance(v_, ast.Name)}
                    if not any(isinstance(x, ast.Name) and x.id in names_in and isinstance(x.ctx, (ast.Store, ast.Del)) for s_ in st.body for x in ast.walk(s_)):
                        rows = [ast.Tuple(elts=[k_, v_], ctx=ast.Load()) for k_, v_ in zip(it.func.value.keys, it.func.value.values)]
                        key = (fi.module.name, None, "<display>")
                if rows is None:
                    continue
                tg = st.target
                names = [tg.id] if isinstance(tg, ast.Name) else [x.id for x in tg.elts] if isinstance(tg, ast.Tuple) and all(isinstance(x, ast.Name) for x in tg.elts) else None
                if names is None or len(set(names)) != len(names):
                    continue
                if isinstance(tg, ast.Tuple) and not all(isinstance(r, ast.Tuple) and len(r.elts) == len(names) for r in rows):
                    continue
                inner = [x for s_ in st.body for x in ast.walk(s_)]
                # break / continue of this loop (not of a nested one)
                def own_jumps(stmts):
                    for s_ in stmts:
                        if isinstance(s_, (ast.Break, ast.Continue)):
                            return True
                        if isinstance(s_, (ast.For, ast.While, ast.FunctionDef, ast.AsyncFunctionDef, ast.ClassDef)):
                            continue
                        for f in ("body", "orelse", "finalbody"):
                            if own_jumps(getattr(s_, f, []) or []):
                                return True
                        if isinstance(s_, ast.Try) and any(own_jumps(h.body) for h in s_.handlers):
                            return True
                    return False
                search = False
                if own_jumps(st.body):
                    # for row in TABLE: if T(row): B(row); break      - a search: the first row whose test holds runs its body
                    if len(st.body) == 1 and isinstance(st.body[0], ast.If) and not st.body[0].orelse and st.body[0].body and isinstance(st.body[0].body[-1], ast.Break) \
                            and not own_jumps(st.body[0].body[:-1]) and not prelude and len(rows) <= 12:
                        search = True
                    else:
                        continue
                if any(isinstance(x, ast.Name) and x.id in names and isinstance(x.ctx, (ast.Store, ast.Del)) for x in inner):
                    continue
                inner_ids = {id(x) for x in inner} | {id(x) for x in ast.walk(tg)}
                if any(isinstance(x, ast.Name) and x.id in names and id(x) not in inner_ids for x in walk_own(fi.node)):
                    continue
                if any(isinstance(x, (ast.Lambda, ast.FunctionDef)) for x in inner):
                    continue
                fresh = []
                if search:
                    # if T(r1): B(r1)  elif T(r2): B(r2) ...   (a test is evaluated only when the earlier ones failed, as in the loop)
                    chain = ""
                    for k_, r in enumerate(rows):
                        vals = [r] if isinstance(tg, ast.Name) else list(r.elts)
                        mapping = {n: "(%s)" % ast.unparse(v) for n, v in zip(names, vals)}
                        t_ = ast.unparse(_SubstNames(mapping).visit(ast.parse(ast.unparse(st.body[0].test), mode="eval").body))
                        b_ = ast.unparse(_SubstNames(mapping).visit(ast.parse("\n".join(ast.unparse(s_) for s_ in st.body[0].body[:-1]) or "pass")))
                        chain += "%s %s:\n%s\n" % ("if" if k_ == 0 else "elif", t_, "\n".join("    " + l_ for l_ in b_.splitlines()))
                    fresh = ast.parse(chain).body
                    rows = []
                for r in rows:
                    vals = [r] if isinstance(tg, ast.Name) else list(r.elts)
                    mapping = {n: "(%s)" % ast.unparse(v) for n, v in zip(names, vals)}
                    mod = ast.parse("\n".join(ast.unparse(s_) for s_ in st.body))
                    mod = _SubstNames(mapping).visit(mod)
                    ast.fix_missing_locations(mod)
                    fresh += ast.parse(ast.unparse(mod)).body
                if not fresh:
                    fresh = [ast.Pass()]
                if prelude:
                    fresh = ast.parse("\n".join(prelude)).body + fresh
                for s_ in fresh:
                    for y in ast.walk(s_):
                        ast.copy_location(y, st)
                        for ch in ast.iter_child_nodes(y):
                            ch._parent = y
                    s_._parent = owner
                if drop_prev:
                    blk[i - 2:i] = fresh
                    i -= 1
                else:
                    blk[i - 1:i] = fresh
                i += len(fresh) - 1
                _invalidate(owner)
                done.setdefault(q, []).append(key[2])
        if q in done:
            # if <constant>: A else: B   left behind by a table column of flags
            again_ = True
            while again_:
                again_ = False
                for owner, field, blk in _blocks(fi.node):
                    for j, s_ in enumerate(blk):
                        if isinstance(s_, ast.If) and isinstance(s_.test, ast.Constant) and isinstance(s_.test.value, bool):
                            keep = s_.body if s_.test.value else s_.orelse
                            for k_ in keep:
                                k_._parent = owner
                            blk[j:j + 1] = keep or [ast.copy_location(ast.Pass(), s_)]
                            _invalidate(owner)
                            again_ = True
                            break
                    if again_:
                        break
            # setattr(x, "name", v) as a statement -> x.name = v   (not for names the compiler would mangle)
            for owner, field, blk in _blocks(fi.node):
                for j, s_ in enumerate(blk):
                    c = s_.value if isinstance(s_, ast.Expr) else None
                    if isinstance(c, ast.Call) and isinstance(c.func, ast.Name) and c.func.id == "setattr" and len(c.args) == 3 and not c.keywords \
                            and isinstance(c.args[1], ast.Constant) and isinstance(c.args[1].value, str) and c.args[1].value.isidentifier() \
                            and not c.args[1].value.startswith("__") and not any(isinstance(a_, ast.Starred) for a_ in c.args) and _chain(c.args[0]) is not None \
                            and not any(isinstance(y, (ast.Call, ast.Await, ast.Yield, ast.YieldFrom, ast.NamedExpr)) for y in ast.walk(c.args[2])):
                        blk[j] = _fresh_stmt("%s.%s = %s" % (ast.unparse(c.args[0]), c.args[1].value, ast.unparse(c.args[2])), s_, owner)[0]
                        _invalidate(owner)
            # getattr(x, "name") -> x.name
            for c in [n for n in walk_own(fi.node) if isinstance(n, ast.Call)]:
                if isinstance(c.func, ast.Name) and c.func.id == "getattr" and len(c.args) == 2 and not c.keywords and isinstance(c.args[1], ast.Constant) \
                        and isinstance(c.args[1].value, str) and c.args[1].value.isidentifier():
                    _install(c, ast.Attribute(value=c.args[0], attr=c.args[1].value, ctx=ast.Load()))
            # t = <attribute chain>; t(...)   with t used nowhere but in such pairs (the handler picked from a table row)
            ref_locals_ = {n for n, _ in ref[q]["locals"]} | set(ref[q]["params"])
            for owner, field, blk in _blocks(fi.node):
                j = 0
                while j + 1 < len(blk):
                    a_, b_ = blk[j], blk[j + 1]
                    j += 1
                    if not (isinstance(a_, ast.Assign) and len(a_.targets) == 1 and isinstance(a_.targets[0], ast.Name) and a_.targets[0].id not in ref_locals_
                            and _chain(a_.value) is not None and isinstance(b_, ast.Expr) and isinstance(b_.value, ast.Call) and isinstance(b_.value.func, ast.Name)
                            and b_.value.func.id == a_.targets[0].id):
                        continue
                    t_ = a_.targets[0].id
                    if sum(1 for x in ast.walk(b_) if isinstance(x, ast.Name) and x.id == t_) != 1:
                        continue
                    # every other occurrence of t is part of such a pair as well
                    pairs_ok = True
                    for x in walk_own(fi.node):
                        if isinstance(x, ast.Name) and x.id == t_:
                            p_ = getattr(x, "_parent", None)
                            if not ((isinstance(p_, ast.Assign) and p_.targets[0] is x) or (isinstance(p_, ast.Call) and p_.func is x and isinstance(getattr(p_, "_parent", None), ast.Expr))):
                                pairs_ok = False
                    if not pairs_ok:
                        continue
                    _install(b_.value.func, ast.parse(ast.unparse(a_.value), mode="eval").body)
                    j -= 1
                    del blk[j]
                    _invalidate(owner)
    if done:
        _clear_analysis_caches()
    return done


def _module_fixed_names(repo, mod):
    """names bound exactly once at the top level of the module by an import, def or class, and never declared global in a function"""
    cached = getattr(mod, "_fixed_names", None)
    if cached is not None:
        return cached
    count = {}
    fixed = set()
    for st in mod.tree.body:
        if isinstance(st, (ast.Import, ast.ImportFrom)):
            for a in st.names:
                n = (a.asname or a.name).split(".")[0]
                count[n] = count.get(n, 0) + 1
                fixed.add(n)
        elif isinstance(st, (ast.FunctionDef, ast.AsyncFunctionDef, ast.ClassDef)):
            count[st.name] = count.get(st.name, 0) + 1
            fixed.add(st.name)
        else:
            for x in ast.walk(st):
                if isinstance(x, ast.Name) and isinstance(x.ctx, (ast.Store, ast.Del)):
                    count[x.id] = count.get(x.id, 0) + 2
    for x in ast.walk(mod.tree):
        if isinstance(x, ast.Global):
            for n in x.names:
                count[n] = count.get(n, 0) + 2
    out = {n for n in fixed if count.get(n) == 1 and n != "*"}
    mod._fixed_names = out
    return out


def _constant_expr(e, repo, fi=None):
    """an expression whose value is fixed by the program text: literals, arithmetic / tuples over such, struct.calcsize and len of
    such, attributes of a package class that nothing in the package ever assigns outside the class body, and names the module
    binds once by import / def / class (when the function has no local of that name)"""
    if isinstance(e, ast.Constant):
        return True
    if isinstance(e, ast.Name) and fi is not None:
        own = {n for n, _ in _bound_names(fi.node)[0]} | set(fi.params)
        return e.id not in own and e.id in _module_fixed_names(repo, fi.module)
    if isinstance(e, ast.BinOp):
        return _constant_expr(e.left, repo, fi) and _constant_expr(e.right, repo, fi)
    if isinstance(e, ast.UnaryOp):
        return _constant_expr(e.operand, repo, fi)
    if isinstance(e, ast.Tuple):
        return all(_constant_expr(x, repo, fi) for x in e.elts)
    if isinstance(e, ast.Call) and not e.keywords and len(e.args) == 1 and ast.unparse(e.func) in ("struct.calcsize", "len"):
        return _constant_expr(e.args[0], repo, fi)
    if isinstance(e, ast.Attribute) and isinstance(e.value, ast.Name):
        return (e.value.id, e.attr) in _stable_class_attributes(repo)
    return False


def _stable_class_attributes(repo):
    """(Class, ATTR) pairs: ATTR is bound to a literal in the class body of a package class and no statement of the package
    stores to an attribute of that name (Packet's MTU-dependent attributes are therefore not stable)"""
    cached = getattr(repo, "_stable_attrs", None)
    if cached is not None:
        return cached
    stored = set()
    dynamic_on = set()      # first arguments of setattr / delattr calls with a computed attribute name
    for m in repo.modules.values():
        for n in ast.walk(m.tree):
            if isinstance(n, ast.Attribute) and isinstance(n.ctx, (ast.Store, ast.Del)):
                stored.add(n.attr)
            if isinstance(n, ast.Call) and isinstance(n.func, ast.Name) and n.func.id in ("setattr", "delattr"):
                if len(n.args) >= 2 and isinstance(n.args[1], ast.Constant):
                    stored.add(n.args[1].value)
                else:
                    dynamic_on.add(ast.unparse(n.args[0]) if n.args else "*")
    out = set()
    # computed attribute names are only ever set on the receiver of a method (self / cls / inst of Serializable and its metaclass):
    # classes with a base other than object could be such receivers and are left out
    if dynamic_on <= {"self", "cls", "inst"}:
        for m in repo.modules.values():
            for c in m.tree.body:
                if isinstance(c, ast.ClassDef) and all(isinstance(b_, ast.Name) and b_.id == "object" for b_ in c.bases) and not c.keywords:
                    for st in c.body:
                        if isinstance(st, ast.Assign) and len(st.targets) == 1 and isinstance(st.targets[0], ast.Name) and isinstance(st.value, ast.Constant) \
                                and st.targets[0].id not in stored and st.targets[0].id.isupper():
                            out.add((c.name, st.targets[0].id))
    repo._stable_attrs = out
    return out


def propagate_new_constants(repo, ref):
    """`k = <constant expression>` for a local k the reference version does not have, bound exactly once, is every read of k
    with the expression in place of the name: the value cannot differ between the binding and any read, evaluating it has no
    effect, and every read is dominated by the binding (so no read could have failed for an unbound name)."""
    from .cfg import cfg_of
    done = {}
    for q, fi in repo.funcs.items():
        if fi.is_lambda or q not in ref:
            continue
        ref_locals = {n for n, _ in ref[q]["locals"]} | set(ref[q]["params"])
        nested = _nested_uses(fi.node)
        progress = True
        while progress:
            progress = False
            for owner, field, blk in _blocks(fi.node):
                for i, st in enumerate(blk):
                    if not (isinstance(st, ast.Assign) and len(st.targets) == 1 and isinstance(st.targets[0], ast.Name)):
                        continue
                    name = st.targets[0].id
                    if name in ref_locals or name in nested or not _constant_expr(st.value, repo, fi) or isinstance(st.value, ast.Name):
                        continue
                    occ = [n for n in walk_own(fi.node) if isinstance(n, ast.Name) and n.id == name]
                    loads = [n for n in occ if isinstance(n.ctx, ast.Load)]
                    if len(occ) - len(loads) != 1 or not loads:
                        continue
                    if any(isinstance(x, ast.Global) and name in x.names or isinstance(x, ast.Nonlocal) and name in x.names for x in ast.walk(fi.node)):
                        continue
                    _clear_analysis_caches()
                    cfg = cfg_of(fi)
                    dn = cfg.node_of(st)
                    if dn is None or not all(cfg.node_of(u) is not None and cfg.node_of(u).id != dn.id and cfg.dominates(dn.id, cfg.node_of(u).id) for u in loads):
                        continue
                    for u in loads:
                        _install(u, st.value)
                    if len(blk) == 1:
                        blk[i] = ast.copy_location(ast.Pass(), st)
                        blk[i]._parent = getattr(st, "_parent", None)
                    else:
                        del blk[i]
                    _invalidate(owner)
                    done.setdefault(q, []).append(name)
                    progress = True
                    break
                if progress:
                    break
    _clear_analysis_caches()
    return done


# ----------------------------------------------------------------------------------------------------------------------
# keyword arguments of calls to package functions are put back into their positional slots

_COMMON_METHOD_NAMES = {"get", "update", "append", "pop", "send", "write", "read", "close", "add", "remove", "insert", "items", "keys", "values",
                        "clear", "copy", "index", "count", "join", "split", "encode", "decode", "format", "run", "start", "stop", "connect",
                        "info", "debug", "warning", "error", "exception", "log", "sign", "verify", "encrypt", "decrypt", "seek", "tell"}


def _signatures(repo):
    """callee short name -> positional parameter names (without self / cls), for names with one unambiguous signature"""
    by = {}
    for q, fi in repo.funcs.items():
        if fi.is_lambda or fi.parent is not None:
            continue
        a = fi.node.args
        if a.vararg is not None or a.posonlyargs:
            sig = None
        else:
            names = [x.arg for x in a.args]
            if fi.cls is not None and not fi.is_static and names:
                names = names[1:]
            sig = tuple(names)
        name = fi.name
        if name == "__init__" and fi.cls is not None:
            name = fi.cls.name
        elif name.startswith("__"):
            continue
        by.setdefault(name, set()).add(sig)
        if fi.cls is not None and fi.name != "__init__":
            by.setdefault("%s.%s" % (fi.cls.name, fi.name), set()).add(sig)
    # a class without an own __init__ has no entry; a class name that is also a function name is ambiguous by construction
    return {n: list(s)[0] for n, s in by.items() if len(s) == 1 and list(s)[0] is not None and n not in _COMMON_METHOD_NAMES}


def package_callee_name(repo, mod, call):
    """the callee's short name when the call syntactically addresses a package definition: self.m / cls.m / super().m,
    a bare name defined at the module's top level or imported from a package module, or Class.m / module.f through such a name"""
    f = call.func

    def package_name(n):
        if n in mod.funcs or n in mod.classes:
            return True
        imp = mod.imports.get(n)
        if imp is None:
            return False
        target = imp[1]
        return repo.import_target_module(mod, target) is not None or (imp[0] == "module" and repo.import_target_module(mod, target.lstrip(".")) is not None)
    if isinstance(f, ast.Name):
        return f.id if package_name(f.id) else None
    if isinstance(f, ast.Attribute):
        v = f.value
        if isinstance(v, ast.Name) and (v.id in ("self", "cls") or package_name(v.id)):
            return f.attr
        if isinstance(v, ast.Call) and isinstance(v.func, ast.Name) and v.func.id == "super":
            return f.attr
    return None


def positional_calls(repo, ref):
    """f(a, y=c, x=b) -> f(a, b, c) when f names exactly one signature in the package and the keywords fill the next slots"""
    sigs = None
    changed = {}
    for q, fi in repo.funcs.items():
        if fi.is_lambda or q not in ref:
            continue
        for c in list(walk_own(fi.node)):
            if not (isinstance(c, ast.Call) and c.keywords and all(k.arg is not None for k in c.keywords)):
                continue
            if any(isinstance(a, ast.Starred) for a in c.args):
                continue
            name = package_callee_name(repo, fi.module, c)
            if name is None:
                continue
            if sigs is None:
                sigs = _signatures(repo)
            sig = sigs.get(name)
            if sig is None and isinstance(c.func, ast.Attribute) and isinstance(c.func.value, ast.Name):
                # Class.method(...): the class name disambiguates method names that several classes define
                sig = sigs.get("%s.%s" % (c.func.value.id, name))
            if sig is None:
                continue
            kw = {k.arg: k for k in c.keywords}
            moved = 0
            while len(c.args) < len(sig) and sig[len(c.args)] in kw:
                k = kw.pop(sig[len(c.args)])
                c.args.append(k.value)
                c.keywords.remove(k)
                moved += 1
            if moved:
                _invalidate(c)
                changed[q] = changed.get(q, 0) + moved
    return changed


# ----------------------------------------------------------------------------------------------------------------------
# new helper functions (extract-method refactorings) are inlined at their call sites

class _Refuse(Exception):
    pass


def _has_return(node):
    for x in ast.walk(node):
        if isinstance(x, ast.Return):
            return True
        if isinstance(x, (ast.FunctionDef, ast.AsyncFunctionDef, ast.Lambda)) and x is not node:
            pass
    return False


def _tailify(stmts, conv):
    """rewrite a statement list so that every `return` is in tail position and replaced by conv(value) (a list of statements);
    the statements after an `if` that contains a return are pushed into both of its suites"""
    out = []
    for i, st in enumerate(stmts):
        if isinstance(st, ast.Return):
            return out + conv(st.value), True
        if isinstance(st, ast.Raise):
            return out + [st], True          # nothing falls through a raise
        if _has_return(st):
            rest = stmts[i + 1:]
            if isinstance(st, ast.Try):
                # returns in the handlers / the else suite only: the statements after the try run when the body completed
                # normally (-> appended to the else suite, which no handler covers, like the original position) and after a
                # handler that falls through (-> appended to that handler)
                if any(_has_return(x) for x in st.finalbody):
                    raise _Refuse("return inside finally")
                if any(_has_return(x) for x in st.body):
                    # only as the last statement of the body: `try: ...; return E` evaluates E under the handlers and leaves;
                    # the value is kept in a temporary and the leaving moves to the else suite (which the body skipped anyway)
                    if not (isinstance(st.body[-1], ast.Return) and not any(_has_return(x) for x in st.body[:-1]) and not st.orelse):
                        raise _Refuse("return inside a try body")
                    tmp = "_hret"
                    val = st.body[-1].value if st.body[-1].value is not None else ast.Constant(value=None)
                    body2 = list(st.body[:-1]) + [ast.Assign(targets=[ast.Name(id=tmp, ctx=ast.Store())], value=val)]
                    o = conv(ast.Name(id=tmp, ctx=ast.Load()))
                    hs, all_t = [], True
                    for h in st.handlers:
                        hb, th = _tailify(list(h.body) + rest, conv)
                        hs.append(ast.ExceptHandler(type=h.type, name=h.name, body=hb or [ast.Pass()]))
                        all_t = all_t and th
                    new = ast.Try(body=body2, handlers=hs, orelse=o, finalbody=st.finalbody)
                    return out + [new], all_t
                o, to = _tailify(list(st.orelse) + rest, conv)
                hs, all_t = [], to
                for h in st.handlers:
                    hb, th = _tailify(list(h.body) + rest, conv)
                    hs.append(ast.ExceptHandler(type=h.type, name=h.name, body=hb or [ast.Pass()]))
                    all_t = all_t and th
                new = ast.Try(body=st.body, handlers=hs, orelse=o, finalbody=st.finalbody)
                return out + [new], all_t
            if not isinstance(st, ast.If):
                raise _Refuse("return inside %s" % type(st).__name__)
            b, tb = _tailify(list(st.body) + rest, conv)
            o, to = _tailify(list(st.orelse) + rest, conv)
            new = ast.If(test=st.test, body=b or [ast.Pass()], orelse=o)
            return out + [new], (tb and to)
        out.append(st)
    return out, False


def _search_loops(stmts):
    """for x in it: if c: return K      ->  return any(c for x in it)   (K True, then `return False`)
       return not K                          return all(not c for x in it)   (K False, then `return True`)"""
    out = list(stmts)
    for i in range(len(out) - 1):
        a, b = out[i], out[i + 1]
        if isinstance(a, ast.For) and not a.orelse and len(a.body) == 1 and isinstance(a.body[0], ast.If) and not a.body[0].orelse \
                and len(a.body[0].body) == 1 and isinstance(a.body[0].body[0], ast.Return) and isinstance(b, ast.Return) \
                and isinstance(a.body[0].body[0].value, ast.Constant) and isinstance(b.value, ast.Constant) \
                and a.body[0].body[0].value.value in (True, False) and b.value.value is (not a.body[0].body[0].value.value):
            found = a.body[0].body[0].value.value
            cond = a.body[0].test
            elt = cond if found else ast.UnaryOp(op=ast.Not(), operand=cond)
            gen = ast.GeneratorExp(elt=elt, generators=[ast.comprehension(target=a.target, iter=a.iter, ifs=[], is_async=0)])
            call = ast.Call(func=ast.Name(id="any" if found else "all", ctx=ast.Load()), args=[gen], keywords=[])
            return out[:i] + [ast.Return(value=call)] + out[i + 2:]
    return out


class _SubstNames(ast.NodeTransformer):
    def __init__(self, mapping):
        self.mapping = mapping            # name -> replacement expression text

    def visit_Name(self, node):
        if node.id in self.mapping:
            new = ast.parse(self.mapping[node.id], mode="eval").body
            if isinstance(node.ctx, ast.Store) and isinstance(new, ast.Name):
                new.ctx = ast.Store()
            return new
        return node

    def visit_ExceptHandler(self, node):
        self.generic_visit(node)
        if node.name in self.mapping:
            node.name = self.mapping[node.name]
        return node


def inline_local_functions(repo, ref):
    """def f(p, q): <statements>   in the body of a function, where f is a name the reference version does not have, the
    statements bind no name and contain no return / yield / nested scope, and f is used only in whole-statement calls
    `f(a, b)` with names or constants as arguments, later in the same function: every call is the statements with the
    arguments in place of the parameters (a closure reads the enclosing function's variables when it runs, which is where the
    inlined statements read them), and the definition is removed."""
    done = {}
    for q, fi in list(repo.funcs.items()):
        if fi.is_lambda or q not in ref:
            continue
        ref_locals = {n for n, _ in ref[q]["locals"]} | set(ref[q]["params"])
        for d in [s_ for s_ in fi.node.body if isinstance(s_, ast.FunctionDef)]:
            a = d.args
            if d.name in ref_locals or d.decorator_list or a.vararg or a.kwarg or a.kwonlyargs or a.posonlyargs or a.defaults:
                continue
            params = [x.arg for x in a.args]
            inner = [s_ for s_ in d.body if not (isinstance(s_, ast.Expr) and isinstance(s_.value, ast.Constant))]
            if not inner:
                continue
            if any(isinstance(x, (ast.Return, ast.Yield, ast.YieldFrom, ast.Await, ast.Global, ast.Nonlocal, ast.FunctionDef, ast.AsyncFunctionDef, ast.ClassDef, ast.Lambda,
                                  ast.ListComp, ast.SetComp, ast.DictComp, ast.GeneratorExp, ast.NamedExpr, ast.ExceptHandler, ast.Import, ast.ImportFrom))
                   or (isinstance(x, ast.Name) and isinstance(x.ctx, (ast.Store, ast.Del))) for s_ in inner for x in ast.walk(s_)):
                continue
            if sum(1 for x in ast.walk(fi.node) if (isinstance(x, (ast.FunctionDef, ast.AsyncFunctionDef, ast.ClassDef)) and x.name == d.name)
                   or (isinstance(x, ast.arg) and x.arg == d.name)
                   or (isinstance(x, ast.Name) and x.id == d.name and isinstance(x.ctx, (ast.Store, ast.Del)))) != 1:
                continue
            k = [i for i, s_ in enumerate(fi.node.body) if s_ is d][0]
            later = {id(x) for s_ in fi.node.body[k + 1:] for x in ast.walk(s_)}
            own = {id(x) for x in walk_own(fi.node)}
            sites = []
            ok = True
            for x in ast.walk(fi.node):
                if not (isinstance(x, ast.Name) and x.id == d.name):
                    continue
                par = getattr(x, "_parent", None)
                st = getattr(par, "_parent", None)
                if not (isinstance(x.ctx, ast.Load) and id(x) in own and id(x) in later and isinstance(par, ast.Call) and par.func is x and isinstance(st, ast.Expr)
                        and st.value is par and not par.keywords and len(par.args) == len(params)
                        and all(isinstance(a_, (ast.Name, ast.Constant)) for a_ in par.args)):
                    ok = False
                    break
                sites.append((st, par))
            if not ok or not sites:
                continue
            blocks = _blocks(fi.node)
            for st, call in sites:
                mapping = {p_: ast.unparse(a_) for p_, a_ in zip(params, call.args)}
                new = []
                for s_ in inner:
                    c_ = ast.parse(ast.unparse(s_)).body[0]
                    c_ = _SubstNames(mapping).visit(c_)
                    ast.fix_missing_locations(c_)
                    c_ = ast.parse(ast.unparse(c_)).body[0]
                    for y in ast.walk(c_):
                        ast.copy_location(y, st)
                        for z in ast.iter_child_nodes(y):
                            z._parent = y
                    new.append(c_)
                for owner, field, blk in blocks:
                    idx = [i for i, s_ in enumerate(blk) if s_ is st]
                    if idx:
                        for c_ in new:
                            c_._parent = owner
                        blk[idx[0]:idx[0] + 1] = new
                        break
            fi.node.body.remove(d)
            repo.funcs.pop("%s.%s" % (q, d.name), None)
            _invalidate(fi.node)
            done.setdefault(q, []).append(d.name)
    return done


def inline_new_helpers(repo, full_ref):
    """A function that the reference tree does not have, whose body is loop-free of returns (every return can be brought into
    tail position) and that is called as a whole statement (`h(...)`, `x = h(...)`, `return h(...)`) from a function of the
    same class / module, is an extracted method: its body is put back at the call site (parameters replaced by the simple
    argument expressions or bound to them first, clashing locals renamed, returns replaced by the assignment / return of
    the call statement).  When every call of the helper was inlined the helper is removed from the index."""
    done = {}
    new_funcs = {q: fi for q, fi in repo.funcs.items() if q not in full_ref and not fi.is_lambda and fi.parent is None
                 and fi.module.name in {k.split(":")[0] for k in full_ref}}
    if not new_funcs:
        return done
    for hq, h in list(new_funcs.items()):
        a = h.node.args
        if a.kwonlyargs:
            continue
        # *args that the helper only hands on (`g(x, *args)`) is the surplus positional arguments of the inlined call, in place
        vaname = a.vararg.arg if a.vararg else None
        if vaname is not None:
            vuses = [x for x in ast.walk(h.node) if isinstance(x, ast.Name) and x.id == vaname]
            if a.kwarg or not vuses or not all(isinstance(x.ctx, ast.Load) and isinstance(getattr(x, "_parent", None), ast.Starred)
                                               and isinstance(getattr(x._parent, "_parent", None), ast.Call) and x._parent in x._parent._parent.args for x in vuses):
                continue
        # **kwargs that the helper only hands on (`g(x, **kwargs)`) is the caller's own `**kwargs` at the inlined call
        kwname = a.kwarg.arg if a.kwarg else None
        kwmode = None
        if kwname is not None:
            kuses = [x for x in ast.walk(h.node) if isinstance(x, ast.Name) and x.id == kwname]
            if kuses and all(isinstance(getattr(x, "_parent", None), ast.keyword) and x._parent.arg is None and isinstance(x.ctx, ast.Load) for x in kuses) and not a.args:
                kwmode = "forward"      # (a caller's keyword could collide with a parameter name: only exact for positional-only parameters)
            elif len(kuses) == 1 and isinstance(getattr(kuses[0], "_parent", None), ast.Attribute) and kuses[0]._parent.attr == "items" \
                    and isinstance(getattr(kuses[0]._parent, "_parent", None), ast.Call) and not kuses[0]._parent._parent.args and not kuses[0]._parent._parent.keywords \
                    and isinstance(getattr(kuses[0]._parent._parent, "_parent", None), ast.For) and kuses[0]._parent._parent._parent.iter is kuses[0]._parent._parent:
                kwmode = "dict"         # for k, v in kw.items(): the keywords of the call, in the order written
            else:
                continue
        decos = set(h.decorators)
        if decos - {"staticmethod", "classmethod"}:
            continue
        if any(isinstance(x, (ast.YieldFrom, ast.Await, ast.Global, ast.Nonlocal)) for x in ast.walk(h.node)):
            continue
        if any(isinstance(x, (ast.FunctionDef, ast.AsyncFunctionDef, ast.ClassDef)) for x in ast.walk(h.node) if x is not h.node):
            continue
        # not recursive
        if any(isinstance(c, ast.Call) and (norm_name(c.func) == h.name) for c in ast.walk(h.node)):
            continue
        params = [x.arg for x in a.posonlyargs + a.args]
        if (kwname is not None or a.posonlyargs) and any(isinstance(x, ast.Yield) for x in ast.walk(h.node)):
            continue
        if any(isinstance(x, ast.Yield) for x in ast.walk(h.node)):
            try:
                if _inline_generator(repo, hq, h, params, decos, done):
                    pass
            except _Refuse:
                pass
            continue
        is_method = h.cls is not None and "staticmethod" not in decos
        recv_param = params[0] if is_method and params else None
        call_params = params[1:] if is_method else params
        defaults = dict(zip(reversed(call_params), reversed([ast.unparse(d) for d in a.defaults])))
        h_locals = {n for n, _ in _bound_names(h.node)[0]}
        stored_params = {x.id for x in ast.walk(h.node) if isinstance(x, ast.Name) and isinstance(x.ctx, (ast.Store, ast.Del)) and x.id in params}
        # call sites, package-wide, by syntactic form
        sites, other_uses = [], 0
        for q, fi in repo.funcs.items():
            if fi.is_lambda or fi is h:
                continue
            for c in walk_own(fi.node):
                if isinstance(c, ast.Attribute) and c.attr == h.name and not isinstance(getattr(c, "_parent", None), ast.Call):
                    other_uses += 1
                if isinstance(c, ast.Name) and c.id == h.name and isinstance(c.ctx, ast.Load) and not (isinstance(getattr(c, "_parent", None), ast.Call) and c._parent.func is c):
                    other_uses += 1
                if not isinstance(c, ast.Call) or norm_name(c.func) != h.name:
                    continue
                ok_recv = False
                recv = None
                if h.cls is not None and isinstance(c.func, ast.Attribute):
                    v = c.func.value
                    if isinstance(v, ast.Name) and v.id in ("self", "cls") and fi.cls is not None and (fi.cls is h.cls or h.cls in _mro(fi.cls)):
                        ok_recv, recv = True, v.id
                    elif isinstance(v, ast.Name) and v.id == h.cls.name and not is_method:
                        ok_recv = True
                elif h.cls is None and isinstance(c.func, ast.Name) and fi.module is h.module:
                    ok_recv = True
                st = getattr(c, "_parent", None)
                form = None
                if isinstance(st, ast.Expr) and st.value is c:
                    form = "expr"
                elif isinstance(st, ast.Assign) and st.value is c and len(st.targets) == 1:
                    form = "assign"
                elif isinstance(st, ast.Return) and st.value is c:
                    form = "return"
                else:
                    # nested in a simple statement, and nothing with an effect is evaluated before it: the call is taken out
                    # into a temporary (x = f(h(a)).g()  ->  _h = h(a); x = f(_h).g())
                    top = c
                    while top is not None and not isinstance(top, ast.stmt):
                        top = getattr(top, "_parent", None)
                    if isinstance(top, (ast.Expr, ast.Assign, ast.Return, ast.AugAssign)) and not _inside(c, (ast.Lambda, ast.ListComp, ast.SetComp, ast.DictComp, ast.GeneratorExp, ast.IfExp, ast.BoolOp), top):
                        anc_ids = {id(a_) for a_ in _ancestors(c, top)}
                        earlier = [x for x in ast.walk(top) if isinstance(x, (ast.Call, ast.Await, ast.Yield, ast.YieldFrom, ast.NamedExpr)) and x is not c
                                   and id(x) not in anc_ids and not any(y is x for y in ast.walk(c)) and _pos(x) < _pos(c)]
                        in_target = isinstance(top, (ast.Assign, ast.AugAssign)) and not any(y is c for y in ast.walk(top.value))
                        if not earlier and not in_target:
                            form = "nested"
                            st = top
                    elif isinstance(top, ast.If) and any(y is c for y in ast.walk(top.test)) \
                            and not _inside(c, (ast.Lambda, ast.ListComp, ast.SetComp, ast.DictComp, ast.GeneratorExp, ast.IfExp), top):
                        # in the test of an if (also an elif: the temporary is bound in the else suite the elif lives in), as the
                        # first thing evaluated: not behind a short-circuit operand, no call before it
                        child, short = c, False
                        for a_ in _ancestors(c, top):
                            if isinstance(a_, ast.BoolOp) and a_.values[0] is not child:
                                short = True
                            if isinstance(a_, ast.Compare) and a_.left is not child:
                                short = True
                            child = a_
                        anc_ids = {id(a_) for a_ in _ancestors(c, top)}
                        earlier = [x for x in ast.walk(top.test) if isinstance(x, (ast.Call, ast.Await, ast.NamedExpr)) and x is not c
                                   and id(x) not in anc_ids and not any(y is x for y in ast.walk(c)) and _pos(x) < _pos(c)]
                        if not short and not earlier:
                            form = "nested"
                            st = top
                sites.append((fi, c, st, form, ok_recv, recv))
        if not sites or other_uses or any(not ok for (_, _, _, form, ok, _) in sites):
            continue
        # a helper that is one `return <expression>`: the expression replaces the call wherever it stands (it is evaluated
        # exactly where the call was), provided the arguments are simple enough to be evaluated at their places of use
        hbody = [s_ for s_ in h.node.body if not (isinstance(s_, ast.Expr) and isinstance(s_.value, ast.Constant) and isinstance(s_.value.value, str))]
        was_tree = not (len(hbody) == 1 and isinstance(hbody[0], ast.Return))
        hexpr = _exprify(_search_loops(hbody)) if not stored_params else None
        if hexpr is not None:
            hbody = [ast.Return(value=hexpr)]
        all_sites = sites
        if was_tree:
            # a decision tree of returns: as an expression only where the call is not a whole statement (there the statements
            # themselves are put in place, below)
            sites = [x for x in all_sites if x[3] in (None, "nested")]
        # a parameter used inside a lambda / generator expression of the helper is bound when the helper is *called*; put in place, the
        # argument expression would be evaluated when the lambda runs.  A helper that is `return lambda <args>: E` keeps its meaning when each
        # captured parameter becomes a default argument of the lambda (evaluated where the call stood); anything else is not inlined
        deferred = [x for x in ast.walk(h.node) if isinstance(x, (ast.Lambda, ast.GeneratorExp))]
        def _late(x):
            # (the defaults of a lambda and the first iterable of a generator expression are evaluated at once)
            if isinstance(x, ast.Lambda):
                return [x.body]
            return [x.elt] + [z for g_ in x.generators for z in g_.ifs] + [g_.iter for g_ in x.generators[1:]]
        captured = {y.id for x in deferred for part in _late(x) for y in ast.walk(part) if isinstance(y, ast.Name) and y.id in params and y.id != recv_param
                    and not (isinstance(x, ast.Lambda) and y.id in {a_.arg for a_ in x.args.args})}
        if captured:
            r0 = hbody[0] if len(hbody) == 1 and isinstance(hbody[0], ast.Return) else None
            lam = r0.value if r0 is not None and isinstance(r0.value, ast.Lambda) else None
            if lam is None or len(deferred) != 1 or lam.args.vararg or lam.args.kwarg or lam.args.kwonlyargs or (captured & {a_.arg for a_ in lam.args.args}):
                continue
            for p_ in sorted(captured):
                lam.args.args.append(ast.arg(arg=p_ + "_", annotation=None))
                lam.args.defaults.append(ast.Name(id=p_, ctx=ast.Load()))
            lam.body = _SubstNames({p_: p_ + "_" for p_ in captured}).visit(lam.body)
            ast.fix_missing_locations(lam)
        if sites and len(hbody) == 1 and isinstance(hbody[0], ast.Return) and hbody[0].value is not None and not stored_params and vaname is None:
            def simple_arg(e):
                return isinstance(e, (ast.Name, ast.Constant)) or (isinstance(e, ast.Attribute) and simple_arg(e.value)) \
                    or (isinstance(e, ast.UnaryOp) and simple_arg(e.operand)) or (isinstance(e, ast.BinOp) and simple_arg(e.left) and simple_arg(e.right)) \
                    or (isinstance(e, ast.Subscript) and simple_arg(e.value) and isinstance(e.slice, (ast.Constant, ast.Name)))
            ok_all = True
            plans = []
            for (fi, c, st, form, _, recv) in sites:
                if any(isinstance(x, ast.Starred) for x in c.args) or any(k.arg is None for k in c.keywords) or kwname is not None:
                    ok_all = False
                    break
                argmap = dict(zip(call_params, c.args))
                for k in c.keywords:
                    if k.arg not in call_params or k.arg in argmap:
                        ok_all = False
                    argmap[k.arg] = k.value
                mapping = {}
                for p_ in call_params:
                    e = argmap.get(p_)
                    if e is None and p_ in defaults:
                        mapping[p_] = defaults[p_]
                    elif e is not None and simple_arg(e):
                        mapping[p_] = "(%s)" % ast.unparse(e)
                    else:
                        ok_all = False
                if recv_param is not None:
                    mapping[recv_param] = recv or "self"
                # names bound inside the expression (comprehension variables) must not capture caller names used in arguments
                bound = {x.id for x in ast.walk(hbody[0].value) if isinstance(x, ast.Name) and isinstance(x.ctx, ast.Store)}
                if bound & {x.id for e in argmap.values() for x in ast.walk(e) if isinstance(x, ast.Name)}:
                    ok_all = False
                plans.append((fi, c, mapping))
            if ok_all:
                for (fi, c, mapping) in plans:
                    expr = ast.parse(ast.unparse(hbody[0].value), mode="eval").body
                    expr = _SubstNames(mapping).visit(expr)
                    ast.fix_missing_locations(expr)
                    new = _install(c, expr)
                    new._inlined_from = hq
                    done.setdefault(fi.qual, []).append(h.name)
                for (fi, c, mapping) in plans:
                    _simplify_bool_contexts(fi.node)
                sites = [x for x in all_sites if x not in sites]
                if not sites:
                    del repo.funcs[hq]
                    if h.cls is not None:
                        h.cls.methods.pop(h.name, None)
                        lst = repo.by_name_methods.get(h.name, [])
                        if h in lst:
                            lst.remove(h)
                    else:
                        h.module.funcs.pop(h.name, None)
                    continue
            else:
                sites = all_sites
        else:
            sites = all_sites
        if any(form is None for (_, _, _, form, _, _) in sites):
            continue
        try:
            for (fi, c, st, form, _, recv) in sites:
                stars = [k for k in c.keywords if k.arg is None]
                if any(isinstance(x, ast.Starred) for x in c.args) or (stars and kwmode != "forward"):
                    raise _Refuse("star arguments")
                if kwmode == "forward" and not (len(stars) == 1 and isinstance(stars[0].value, ast.Name) and len(c.keywords) == 1 and len(c.args) == len(call_params)):
                    raise _Refuse("keyword pass-through")
                argmap = {}
                extra = []
                for p_, a_ in zip(call_params, c.args):
                    argmap[p_] = a_
                surplus = list(c.args[len(call_params):])
                if surplus and (vaname is None or not all(isinstance(x, (ast.Name, ast.Constant)) for x in surplus)):
                    raise _Refuse("surplus positional arguments")
                for k in c.keywords:
                    if k.arg is None:
                        continue
                    if kwmode == "dict" and k.arg not in call_params:
                        if not isinstance(k.value, (ast.Name, ast.Constant)):
                            raise _Refuse("keyword value")
                        extra.append(k)
                        continue
                    if k.arg not in call_params or k.arg in argmap:
                        raise _Refuse("keyword")
                    argmap[k.arg] = k.value
                prelude = []
                mapping = {}
                if vaname is not None:
                    mapping[vaname] = "_VARARGS_"
                if kwmode == "forward":
                    mapping[kwname] = stars[0].value.id
                elif kwmode == "dict":
                    mapping[kwname] = "{%s}" % ", ".join("%r: %s" % (k.arg, ast.unparse(k.value)) for k in extra)
                for p_ in call_params:
                    if p_ in argmap:
                        e = argmap[p_]
                        simple = isinstance(e, (ast.Name, ast.Constant))
                        if simple and p_ not in stored_params:
                            mapping[p_] = ast.unparse(e)
                        else:
                            prelude.append(ast.parse("%s = %s" % (p_, ast.unparse(e))).body[0])
                    elif p_ in defaults:
                        prelude.append(ast.parse("%s = %s" % (p_, defaults[p_])).body[0])
                    else:
                        raise _Refuse("missing argument")
                if recv_param is not None:
                    if recv_param in stored_params:
                        raise _Refuse("receiver rebound")
                    mapping[recv_param] = recv or "self"
                caller_names = {n for n, _ in _bound_names(fi.node)[0]} | set(fi.params)
                # x = h(...) where every return of h hands back the same local L, and x is bound here for the first and only time:
                # L *is* x (the accumulator the helper fills is the caller's variable)
                if form == "assign" and isinstance(st.targets[0], ast.Name):
                    rets_ = [x for x in ast.walk(h.node) if isinstance(x, ast.Return)]
                    tg_ = st.targets[0].id
                    if rets_ and all(isinstance(x.value, ast.Name) for x in rets_) and len({x.value.id for x in rets_}) == 1 and rets_[0].value.id in h_locals \
                            and rets_[0].value.id not in params and tg_ not in params and tg_ not in h_locals \
                            and sum(1 for x in walk_own(fi.node) if isinstance(x, ast.Name) and x.id == tg_ and isinstance(x.ctx, (ast.Store, ast.Del))) == 1:
                        mapping[rets_[0].value.id] = tg_
                for n in sorted(h_locals | {p_ for p_ in call_params if p_ not in mapping}):
                    if n in caller_names and n not in mapping:
                        mapping[n] = n + "__h"
                tgt = ast.unparse(st.targets[0]) if form == "assign" else None
                if form == "nested":
                    tgt = "_h%d_%s" % (len(done.get(fi.qual, [])) + 1, h.name.strip("_"))
                    form = "assign"
                    tmp = ast.Name(id=tgt, ctx=ast.Load())
                    ast.copy_location(tmp, c)
                    tmp._parent = c._parent
                    _replace_child(c._parent, c, tmp)
                    _invalidate(tmp)
                    keep_stmt = True
                else:
                    keep_stmt = False

                def conv(value, form=form, tgt=tgt):
                    if form == "expr":
                        if value is None or isinstance(value, (ast.Name, ast.Constant)):
                            return []
                        return [ast.Expr(value=value)]
                    if form == "assign":
                        # the caller's target is kept out of the renaming of clashing helper locals (placeholder, put back below)
                        return [ast.parse("_TGT_ = %s" % (ast.unparse(value) if value is not None else "None")).body[0]]
                    return [ast.Return(value=value)]
                body = [s for s in h.node.body if not (isinstance(s, ast.Expr) and isinstance(s.value, ast.Constant) and isinstance(s.value.value, str))]
                body = ast.parse("\n".join(ast.unparse(s) for s in body) or "pass").body
                body = _search_loops(body)
                ast.fix_missing_locations(ast.Module(body=body, type_ignores=[]))
                new, terminated = _tailify(body, conv)
                if not terminated:
                    new = new + conv(None) if form != "expr" else new
                mod = ast.Module(body=prelude + new, type_ignores=[])
                ast.fix_missing_locations(mod)
                fresh = _drop_noops(ast.parse(ast.unparse(_SubstNames(mapping).visit(mod)).replace("_TGT_", tgt or "_") or "pass").body) or [ast.Pass()]
                fresh = [s_ for s_ in fresh if not (isinstance(s_, ast.Assign) and len(s_.targets) == 1 and isinstance(s_.targets[0], ast.Name) and isinstance(s_.value, ast.Name)
                                                    and s_.targets[0].id == s_.value.id)] or [ast.Pass()]
                if vaname is not None:
                    for s_ in fresh:
                        for y in ast.walk(s_):
                            if isinstance(y, ast.Call) and any(isinstance(x, ast.Starred) and isinstance(x.value, ast.Name) and x.value.id == "_VARARGS_" for x in y.args):
                                y.args = [z for x in y.args for z in ([ast.parse(ast.unparse(e), mode="eval").body for e in surplus]
                                                                       if isinstance(x, ast.Starred) and isinstance(x.value, ast.Name) and x.value.id == "_VARARGS_" else [x])]
                blk, idx = _block_of(st)
                if blk is None:
                    raise _Refuse("call statement not in a block")
                owner = st._parent
                for s_ in fresh:
                    for y in ast.walk(s_):
                        ast.copy_location(y, st)
                        for ch in ast.iter_child_nodes(y):
                            ch._parent = y
                    s_._parent = owner
                    s_._inlined_from = hq
                blk[idx:idx + (0 if keep_stmt else 1)] = fresh
                _invalidate(owner)
                done.setdefault(fi.qual, []).append(h.name)
        except _Refuse:
            continue
        for (fi, _c, _st, _f, _o, _r) in sites:
            _thread_flags(fi.node)
            _thread_none_tests(fi.node)
        # every call was inlined: the helper is gone from the translated program
        del repo.funcs[hq]
        if h.cls is not None:
            h.cls.methods.pop(h.name, None)
            lst = repo.by_name_methods.get(h.name, [])
            if h in lst:
                lst.remove(h)
        else:
            h.module.funcs.pop(h.name, None)
    return done


def norm_name(f):
    return f.attr if isinstance(f, ast.Attribute) else f.id if isinstance(f, ast.Name) else None


def _mro(ci):
    out, todo = [], list(ci.bases)
    while todo:
        b = todo.pop(0)
        if b not in out:
            out.append(b)
            todo += list(b.bases)
    return out


def _drop_self_assignments(fnode):
    """x = x for a local name x (what `return x` of an inlined helper becomes once its renamed local is merged back)"""
    for owner, field, blk in _blocks(fnode):
        if len(blk) > 1:
            def noop(s_):
                if not (isinstance(s_, ast.Assign) and len(s_.targets) == 1):
                    return False
                t, v = s_.targets[0], s_.value
                if isinstance(t, ast.Name) and isinstance(v, ast.Name) and v.id == t.id:
                    return True
                # a, b = (a, b)
                return isinstance(t, (ast.Tuple, ast.List)) and isinstance(v, (ast.Tuple, ast.List)) and len(t.elts) == len(v.elts) \
                    and all(isinstance(a_, ast.Name) and isinstance(b_, ast.Name) and a_.id == b_.id for a_, b_ in zip(t.elts, v.elts))
            keep = [s_ for s_ in blk if not noop(s_)]
            if keep and len(keep) != len(blk):
                blk[:] = keep
                _invalidate(owner)


def _drop_noops(stmts):
    """x = x and empty suites left behind by the substitution"""
    out = []
    for st in stmts:
        if isinstance(st, ast.Assign) and len(st.targets) == 1 and ast.unparse(st.targets[0]) == ast.unparse(st.value) and isinstance(st.value, (ast.Name, ast.Attribute)):
            continue
        if isinstance(st, ast.Pass):
            continue
        if isinstance(st, ast.If):
            st.body = _drop_noops(st.body)
            st.orelse = _drop_noops(st.orelse)
            if not st.body and not st.orelse:
                if any(isinstance(x, ast.Call) for x in ast.walk(st.test)):
                    st.body = [ast.Pass()]
                else:
                    continue
            elif not st.body:
                st.test = ast.UnaryOp(op=ast.Not(), operand=st.test)
                st.body, st.orelse = st.orelse, []
        out.append(st)
    return out


def _stores_only_on_self(fi, attr):
    recv = fi.params[0] if fi.params else None
    for n in walk_own(fi.node):
        if isinstance(n, ast.Attribute) and isinstance(n.ctx, (ast.Store, ast.Del)) and n.attr == attr:
            if not (isinstance(n.value, ast.Name) and n.value.id == recv):
                return False
        if isinstance(n, ast.Call) and isinstance(n.func, ast.Name) and n.func.id in ("setattr", "delattr"):
            return False
    return True


_PURE_METHODS = {"rstrip", "lstrip", "strip", "lower", "upper", "replace", "split", "rsplit", "join", "startswith", "endswith", "encode", "decode",
                 "format", "casefold", "title", "zfill", "partition", "rpartition", "splitlines", "hex", "bit_length", "to_bytes", "count", "find", "index"}
_PURE_FUNCS = {"len", "int", "str", "bytes", "bool", "float", "min", "max", "abs", "tuple", "frozenset", "repr", "ord", "chr", "divmod", "round", "sorted",
               "os.path.join", "os.path.abspath", "os.path.normpath", "os.path.basename", "os.path.dirname", "os.path.normcase", "os.path.splitext"}


def _pure_over_locals(e, fi):
    """no effects and no dependence on mutable shared state: constants, local names / parameters (not self / cls attributes),
    arithmetic, comparisons, slices, and calls of well-known pure functions / str-bytes methods on such values"""
    for x in ast.walk(e):
        if isinstance(x, (ast.Constant, ast.Name, ast.BinOp, ast.UnaryOp, ast.BoolOp, ast.Compare, ast.Subscript, ast.Slice, ast.Tuple, ast.IfExp,
                          ast.operator, ast.unaryop, ast.boolop, ast.cmpop, ast.expr_context, ast.JoinedStr, ast.FormattedValue)):
            continue
        if isinstance(x, ast.Call):
            f = x.func
            if isinstance(f, ast.Attribute) and f.attr in _PURE_METHODS and not x.keywords:
                continue
            if ast.unparse(f) in _PURE_FUNCS:
                continue
            return False
        if isinstance(x, ast.Attribute):
            # only as the function part of a pure call (checked above) or a module constant such as os.sep
            p = getattr(x, "_parent", None)
            if isinstance(p, ast.Call) and p.func is x:
                continue
            if ast.unparse(x) in ("os.sep", "os.path.sep") or ast.unparse(x).startswith("os.path."):
                continue
            return False
        if isinstance(x, (ast.keyword,)):
            continue
        return False
    return True


def _leaves(st):
    """the statement lists at whose end control leaves the compound statement `st` normally, or None when some way out of it
    is not the end of a suite (a loop, a with, an if without else)"""
    if isinstance(st, ast.If):
        if not st.orelse:
            return None
        out = []
        for suite in (st.body, st.orelse):
            l = _suite_leaves(suite)
            if l is None:
                return None
            out += l
        return out
    if isinstance(st, ast.Try) and not st.finalbody:
        out = []
        if not st.orelse:
            # code that follows the try statement is not covered by its handlers: what is moved to the end of the body goes into
            # a new else clause (see _sink_of); a compound last statement of the body cannot be continued that way
            if not st.body or isinstance(st.body[-1], (ast.If, ast.Try)):
                return None
            _SINK[id(st.body)] = (st, st.orelse)
        for suite in [st.orelse if st.orelse else st.body] + [h.body for h in st.handlers]:
            l = [suite] if (suite is st.body) else _suite_leaves(suite)
            if l is None:
                return None
            out += l
        return out
    return None


_SINK = {}


def _sink_of(l):
    """the statement list that receives code moved to the end of leaf `l`: the leaf itself, or the (new) else clause of the try
    statement whose body the leaf is"""
    ent = _SINK.get(id(l))
    if ent is not None and ent[0].body is l:
        return ent[1]
    return l


def _suite_leaves(suite):
    if not suite:
        return None
    last = suite[-1]
    if isinstance(last, (ast.If, ast.Try)):
        return _leaves(last)
    return [suite]


def _thread_flags(fnode):
    """S; if F: A else: B   where every way out of the compound statement S ends with `F = <value>` and the helper temporary F
    (named _h...) is read nowhere else: the test moves to the assignments (A or B directly for constants)"""
    changed = True
    while changed:
        changed = False
        for owner, field, blk in _blocks(fnode):
            for i in range(len(blk) - 1):
                s1, s2 = blk[i], blk[i + 1]
                if not isinstance(s2, ast.If):
                    continue
                t, neg = s2.test, False
                while isinstance(t, ast.UnaryOp) and isinstance(t.op, ast.Not):
                    t, neg = t.operand, not neg
                if not (isinstance(t, ast.Name) and t.id.startswith("_h")):
                    continue
                flag = t.id
                uses = [n for n in walk_own(fnode) if isinstance(n, ast.Name) and n.id == flag and isinstance(n.ctx, ast.Load)]
                if len(uses) != 1:
                    continue
                leaves = _leaves(s1)
                if not leaves:
                    continue
                if not all(isinstance(l[-1], ast.Assign) and len(l[-1].targets) == 1 and isinstance(l[-1].targets[0], ast.Name) and l[-1].targets[0].id == flag for l in leaves):
                    continue
                stores = [n for n in walk_own(fnode) if isinstance(n, ast.Name) and n.id == flag and isinstance(n.ctx, ast.Store)]
                if len(stores) != len(leaves):
                    continue
                for l in leaves:
                    v = l[-1].value
                    if isinstance(v, ast.Constant):
                        suite = s2.body if (bool(v.value) != neg) else s2.orelse
                        rep = [ast.parse(ast.unparse(x)).body[0] for x in suite]
                    else:
                        test = ast.UnaryOp(op=ast.Not(), operand=v) if neg else v
                        node = ast.If(test=test, body=s2.body, orelse=s2.orelse)
                        ast.fix_missing_locations(node)
                        rep = [ast.parse(ast.unparse(node)).body[0]]
                    parent = l[-1]._parent
                    for r in rep:
                        for y in ast.walk(r):
                            ast.copy_location(y, l[-1])
                            for ch in ast.iter_child_nodes(y):
                                ch._parent = y
                        r._parent = parent
                    sink = _sink_of(l)
                    if sink is l:
                        l[-1:] = rep or [ast.copy_location(ast.Pass(), s2)]
                        if not rep:
                            l[-1]._parent = parent
                    else:
                        if isinstance(v, ast.Constant):
                            if len(l) > 1:
                                del l[-1]
                            else:
                                l[-1] = ast.copy_location(ast.Pass(), s2)
                                l[-1]._parent = parent
                        else:
                            # the value is computed where it was (under the handlers); the branch on it is not
                            node = ast.If(test=ast.UnaryOp(op=ast.Not(), operand=ast.Name(id=flag, ctx=ast.Load())) if neg else ast.Name(id=flag, ctx=ast.Load()),
                                          body=s2.body, orelse=s2.orelse)
                            ast.fix_missing_locations(node)
                            rep = [ast.parse(ast.unparse(node)).body[0]]
                            for r in rep:
                                for y in ast.walk(r):
                                    ast.copy_location(y, l[-1])
                                    for ch in ast.iter_child_nodes(y):
                                        ch._parent = y
                                r._parent = parent
                        sink.extend(rep)
                del blk[i + 1]
                _cleanup(fnode)
                _invalidate(owner)
                changed = True
                break
            if changed:
                break


_EXCEPTION_CLASSES = {"ValueError", "TypeError", "KeyError", "IndexError", "Exception", "RuntimeError", "AttributeError", "OSError", "IOError", "LookupError",
                      "ArithmeticError", "NotImplementedError", "AssertionError", "StopIteration", "UnicodeError"}


def _thread_none_tests(fnode):
    """S; if X is None: A else: B   (or `is not None`) where every normal way out of the compound statement S ends with an
    assignment to the local X and at least one of them assigns a constant: the test moves to the ends of S - decided for the
    constants, repeated after the assignment for the other values.  This is what an extracted `return None` / `return value`
    helper looks like after it was put back at its call site."""
    changed = True
    rounds = 0
    own_names = {n.id for n in walk_own(fnode) if isinstance(n, ast.Name) and isinstance(n.ctx, ast.Store)} | {a_.arg for a_ in fnode.args.args}
    while changed and rounds < 20:
        changed = False
        rounds += 1
        for owner, field, blk in _blocks(fnode):
            for i in range(len(blk) - 1):
                s1, s2 = blk[i], blk[i + 1]
                if not (isinstance(s2, ast.If) and isinstance(s2.test, ast.Compare) and len(s2.test.ops) == 1 and isinstance(s2.test.ops[0], (ast.Is, ast.IsNot))
                        and isinstance(s2.test.left, ast.Name) and isinstance(s2.test.comparators[0], ast.Constant) and s2.test.comparators[0].value is None):
                    continue
                var = s2.test.left.id
                is_none = isinstance(s2.test.ops[0], ast.Is)
                leaves = _leaves(s1)
                if not leaves:
                    continue
                live = [l for l in leaves if not isinstance(l[-1], (ast.Return, ast.Raise, ast.Continue, ast.Break))]

                def last_binding(l):
                    """index of the leaf's last top-level `var = value` after which nothing in the leaf stores var"""
                    for k in range(len(l) - 1, -1, -1):
                        st_ = l[k]
                        if isinstance(st_, ast.Assign) and len(st_.targets) == 1 and isinstance(st_.targets[0], ast.Name) and st_.targets[0].id == var:
                            return k
                        if any(isinstance(x, ast.Name) and x.id == var and isinstance(x.ctx, (ast.Store, ast.Del)) for x in ast.walk(st_)):
                            return None
                        if not isinstance(st_, (ast.Assign, ast.AugAssign, ast.Expr, ast.Pass)):
                            return None
                    return None
                binds = [last_binding(l) for l in live]
                if not live or any(k is None for k in binds):
                    continue
                if not any(isinstance(l[k].value, ast.Constant) for l, k in zip(live, binds)):
                    continue
                for l, k in zip(live, binds):
                    v = l[k].value
                    parent = l[k]._parent
                    never_none = isinstance(v, ast.Call) and isinstance(v.func, ast.Name) and v.func.id in _EXCEPTION_CLASSES and v.func.id not in own_names
                    if isinstance(v, ast.Constant) or never_none:
                        # (a freshly constructed builtin exception is an object, not None)
                        suite = s2.body if (((v.value is None) if isinstance(v, ast.Constant) else False) == is_none) else s2.orelse
                        rep = [ast.parse(ast.unparse(x)).body[0] for x in suite]
                    else:
                        rep = [ast.parse(ast.unparse(s2)).body[0]]
                    for r in rep:
                        for y in ast.walk(r):
                            ast.copy_location(y, l[-1])
                            for ch in ast.iter_child_nodes(y):
                                ch._parent = y
                        r._parent = parent
                    dead = isinstance(v, ast.Constant) and rep and (_always_returns(rep) or isinstance(rep[-1], ast.Raise)) and \
                        not any(isinstance(x, ast.Name) and x.id == var for r in rep for x in ast.walk(r))
                    sink = _sink_of(l)
                    if (isinstance(v, ast.Name) and v.id == var) or dead:
                        # `x = x` left by the inlining of `return x`; a constant nobody reads before the function is left
                        if len(l) > 1:
                            del l[k]
                        else:
                            l[k] = ast.copy_location(ast.Pass(), s2)
                            l[k]._parent = parent
                    sink.extend(rep)
                del blk[i + 1]
                _cleanup(fnode)
                _invalidate(owner)
                changed = True
                break
            if changed:
                break


def _cleanup(fnode):
    """`pass` next to other statements, `else: pass`, and `if c: pass else: B` left behind by the threading"""
    for owner, field, blk in _blocks(fnode):
        if len(blk) > 1:
            keep = [s_ for s_ in blk if not isinstance(s_, ast.Pass)]
            blk[:] = keep or blk[:1]
    for n in walk_own(fnode):
        if isinstance(n, ast.If):
            if n.orelse and all(isinstance(x, ast.Pass) for x in n.orelse):
                n.orelse = []
            if n.orelse and all(isinstance(x, ast.Pass) for x in n.body):
                n.test = ast.copy_location(ast.UnaryOp(op=ast.Not(), operand=n.test), n.test)
                n.test._parent = n
                n.test.operand._parent = n.test
                n.body, n.orelse = n.orelse, []
        if isinstance(n, ast.Try):
            if n.orelse and all(isinstance(x, ast.Pass) for x in n.orelse):
                n.orelse = []


def _exprify(stmts):
    """a body that is a decision tree of `if` and `return <expr>` as one conditional expression, else None"""
    if not stmts:
        return None
    st, rest = stmts[0], stmts[1:]
    if isinstance(st, ast.Return):
        return st.value
    if isinstance(st, ast.If):
        body_returns = bool(st.body) and _always_returns(st.body)
        eb = _exprify(list(st.body) if body_returns else list(st.body) + rest)
        eo = _exprify(list(st.orelse) + rest) if not (st.orelse and _always_returns(st.orelse)) else _exprify(list(st.orelse))
        if eb is None or eo is None:
            return None
        return ast.IfExp(test=st.test, body=eb, orelse=eo)
    return None


def _always_returns(stmts):
    if not stmts:
        return False
    last = stmts[-1]
    if isinstance(last, ast.Return):
        return True
    if isinstance(last, ast.If):
        return _always_returns(last.body) and _always_returns(last.orelse)
    return False


def _is_const(e, v):
    return isinstance(e, ast.Constant) and e.value is v


def _neg(e):
    if isinstance(e, ast.UnaryOp) and isinstance(e.op, ast.Not):
        return e.operand
    if isinstance(e, ast.Compare) and len(e.ops) == 1 and type(e.ops[0]) in _COMPL:
        return ast.Compare(left=e.left, ops=[_COMPL[type(e.ops[0])]()], comparators=e.comparators)
    return ast.UnaryOp(op=ast.Not(), operand=e)


def _bool_form(e):
    """truth-value preserving simplification of an expression that is only tested: conditional expressions with constant arms
    become and / or, bool(x) is x, double negations go"""
    if isinstance(e, ast.IfExp):
        c, a, b = _bool_form(e.test), _bool_form(e.body), _bool_form(e.orelse)
        if _is_const(a, True):
            return ast.BoolOp(op=ast.Or(), values=[c, b])
        if _is_const(a, False):
            return ast.BoolOp(op=ast.And(), values=[_neg(c), b])
        if _is_const(b, False):
            return ast.BoolOp(op=ast.And(), values=[c, a])
        if _is_const(b, True):
            return ast.BoolOp(op=ast.Or(), values=[_neg(c), a])
        return ast.IfExp(test=c, body=a, orelse=b)
    if isinstance(e, ast.UnaryOp) and isinstance(e.op, ast.Not):
        inner = _bool_form(e.operand)
        if isinstance(inner, ast.UnaryOp) and isinstance(inner.op, ast.Not):
            return inner.operand
        return ast.UnaryOp(op=ast.Not(), operand=inner)
    if isinstance(e, ast.BoolOp):
        vals = []
        for v in e.values:
            v = _bool_form(v)
            if isinstance(v, ast.BoolOp) and type(v.op) is type(e.op):
                vals += v.values
            else:
                vals.append(v)
        return ast.BoolOp(op=e.op, values=vals)
    if isinstance(e, ast.Call) and isinstance(e.func, ast.Name) and e.func.id == "bool" and len(e.args) == 1 and not e.keywords:
        return _bool_form(e.args[0])
    return e


def _simplify_bool_contexts(fnode):
    for n in list(walk_own(fnode)):
        tests = []
        if isinstance(n, (ast.If, ast.While, ast.IfExp)) and getattr(n, "_parent", None) is not None:
            tests.append(n.test)
        for t in tests:
            if not any(isinstance(x, ast.IfExp) or (isinstance(x, ast.Call) and isinstance(x.func, ast.Name) and x.func.id == "bool") for x in ast.walk(t)):
                continue
            new = _bool_form(ast.parse(ast.unparse(t), mode="eval").body)
            ast.fix_missing_locations(new)
            if ast.unparse(new) != ast.unparse(t):
                _install(t, new)


def _always_leaves(stmts):
    """the statement list never falls through its end (ends in return / raise / continue / break on every path)"""
    if not stmts:
        return False
    last = stmts[-1]
    if isinstance(last, _TERMINATORS):
        return True
    if isinstance(last, ast.If):
        return _always_leaves(last.body) and _always_leaves(last.orelse)
    return False


def _increment_through_temp(fnode, ref_locals):
    """t = X + c; X = t   (t a local the reference does not have)   ->   X += c; t = X
    (the second statement is an alias binding that inline_new_aliases removes when nothing rebinds X while t is read)"""
    n = 0
    for owner, field, blk in _blocks(fnode):
        for i in range(len(blk) - 1):
            a, b = blk[i], blk[i + 1]
            if isinstance(a, ast.Assign) and len(a.targets) == 1 and isinstance(a.targets[0], ast.Name) and a.targets[0].id not in ref_locals \
                    and isinstance(a.value, ast.BinOp) and isinstance(a.value.op, (ast.Add, ast.Sub)) and isinstance(a.value.left, ast.Attribute) \
                    and isinstance(b, ast.Assign) and len(b.targets) == 1 and ast.unparse(b.targets[0]) == ast.unparse(a.value.left) \
                    and isinstance(b.value, ast.Name) and b.value.id == a.targets[0].id and _chain(a.value.left) is not None \
                    and not any(isinstance(x, ast.Call) for x in ast.walk(a.value.right)):
                t = a.targets[0].id
                aug = ast.parse("%s %s= %s" % (ast.unparse(a.value.left), "+" if isinstance(a.value.op, ast.Add) else "-", ast.unparse(a.value.right))).body[0]
                ali = ast.parse("%s = %s" % (t, ast.unparse(a.value.left))).body[0]
                for new, old in ((aug, a), (ali, b)):
                    for y in ast.walk(new):
                        ast.copy_location(y, old)
                        for c_ in ast.iter_child_nodes(y):
                            c_._parent = y
                    new._parent = owner
                blk[i], blk[i + 1] = aug, ali
                _invalidate(owner)
                n += 1
    return n


def _extend_displays(fnode):
    """L.extend((a, b)) for a local list L and a display of values is L.append(a); L.append(b)"""
    n = 0
    params = {a_.arg for a_ in fnode.args.args}
    # L += (a, b) for a local that is only ever bound to a list display is the same in-place extension
    for owner, field, blk in _blocks(fnode):
        for j, st in enumerate(blk):
            if isinstance(st, ast.AugAssign) and isinstance(st.op, ast.Add) and isinstance(st.target, ast.Name) and st.target.id not in params \
                    and isinstance(st.value, (ast.Tuple, ast.List)) and 1 <= len(st.value.elts) <= 6 and not any(isinstance(e, ast.Starred) for e in st.value.elts):
                binds = [x for x in ast.walk(fnode) if isinstance(x, ast.Name) and x.id == st.target.id and isinstance(x.ctx, ast.Store) and x is not st.target]
                if binds and all(isinstance(getattr(b_, "_parent", None), ast.Assign) and b_._parent.targets == [b_] and isinstance(b_._parent.value, ast.List) for b_ in binds) \
                        and not any(isinstance(a_, ast.AugAssign) and a_ is not st and isinstance(a_.target, ast.Name) and a_.target.id == st.target.id
                                    and not isinstance(a_.value, (ast.Tuple, ast.List)) for a_ in ast.walk(fnode)):
                    new = ast.parse("%s.extend(%s)" % (st.target.id, ast.unparse(st.value))).body[0]
                    for y in ast.walk(new):
                        ast.copy_location(y, st)
                        for c_ in ast.iter_child_nodes(y):
                            c_._parent = y
                    new._parent = owner
                    blk[j] = new
                    _invalidate(owner)
    for owner, field, blk in _blocks(fnode):
        i = 0
        while i < len(blk):
            st = blk[i]
            if isinstance(st, ast.Expr) and isinstance(st.value, ast.Call) and isinstance(st.value.func, ast.Attribute) and st.value.func.attr == "extend" \
                    and isinstance(st.value.func.value, ast.Name) and st.value.func.value.id not in params and len(st.value.args) == 1 and not st.value.keywords \
                    and isinstance(st.value.args[0], (ast.Tuple, ast.List)) and 1 <= len(st.value.args[0].elts) <= 6 \
                    and not any(isinstance(e, ast.Starred) for e in st.value.args[0].elts):
                lname = st.value.func.value.id
                if any(isinstance(x, ast.Name) and x.id == lname for e in st.value.args[0].elts for x in ast.walk(e)):
                    i += 1
                    continue
                fresh = [ast.parse("%s.append(%s)" % (lname, ast.unparse(e))).body[0] for e in st.value.args[0].elts]
                for s_ in fresh:
                    for y in ast.walk(s_):
                        ast.copy_location(y, st)
                        for c_ in ast.iter_child_nodes(y):
                            c_._parent = y
                    s_._parent = owner
                blk[i:i + 1] = fresh
                i += len(fresh)
                _invalidate(owner)
                n += 1
            else:
                i += 1
    return n


def _split_chained_assignments(fnode):
    """a = b = v   ->   a = v; b = v   for a name or constant v (targets are bound left to right; reading v again has no effect)"""
    n = 0
    for owner, field, blk in _blocks(fnode):
        i = 0
        while i < len(blk):
            st = blk[i]
            if isinstance(st, ast.Assign) and len(st.targets) > 1 and isinstance(st.value, (ast.Name, ast.Constant)) \
                    and not any(isinstance(x, ast.Name) and isinstance(st.value, ast.Name) and x.id == st.value.id for t in st.targets for x in ast.walk(t) if isinstance(t, ast.Name)):
                fresh = [ast.parse("%s = %s" % (ast.unparse(t), ast.unparse(st.value))).body[0] for t in st.targets]
                for s_ in fresh:
                    for y in ast.walk(s_):
                        ast.copy_location(y, st)
                        for c_ in ast.iter_child_nodes(y):
                            c_._parent = y
                    s_._parent = owner
                blk[i:i + 1] = fresh
                i += len(fresh)
                _invalidate(owner)
                n += 1
            elif isinstance(st, ast.Assign) and len(st.targets) > 1 and _chain(st.targets[0]) is not None \
                    and (isinstance(st.targets[0], ast.Name) or _chain(st.targets[0])[0] == "self") and all(_chain(t) is not None for t in st.targets):
                # a = b = E   ->   a = E; b = a     (a a local or a plain attribute of self: reading it back yields the value stored)
                first = ast.unparse(st.targets[0])
                fresh = [ast.parse("%s = %s" % (first, ast.unparse(st.value))).body[0]] + [ast.parse("%s = %s" % (ast.unparse(t), first)).body[0] for t in st.targets[1:]]
                for s_ in fresh:
                    for y in ast.walk(s_):
                        ast.copy_location(y, st)
                        for c_ in ast.iter_child_nodes(y):
                            c_._parent = y
                    s_._parent = owner
                blk[i:i + 1] = fresh
                i += len(fresh)
                _invalidate(owner)
                n += 1
            else:
                i += 1
    return n


def _assignments_to_ifexp(fnode, ref_entry, ref_locals=None):
    """if C: t = A   else: t = B     ->   t = A if C else B    when the reference version of the function spells the choice
    as a conditional expression with that test"""
    want = set(ref_entry.get("ifexps", ()))
    n = 0

    def pure(e):
        return isinstance(e, ast.Constant) or _chain(e) is not None or _pure_chain_expr(e) is not None
    for owner, field, blk in _blocks(fnode):
        for i, st in enumerate(blk):
            if isinstance(st, ast.If) and len(st.body) == 1 and len(st.orelse) == 1 and all(isinstance(x, ast.Assign) and len(x.targets) == 1 and isinstance(x.targets[0], ast.Name)
                                                                                           for x in (st.body[0], st.orelse[0])) \
                    and st.body[0].targets[0].id == st.orelse[0].targets[0].id \
                    and (_txt(st.test) in want or (ref_locals is not None and st.body[0].targets[0].id not in ref_locals and not st.body[0].targets[0].id.startswith("_h")
                                                   and pure(st.test) and pure(st.body[0].value) and pure(st.orelse[0].value))):
                new = ast.parse("%s = (%s) if (%s) else (%s)" % (st.body[0].targets[0].id, ast.unparse(st.body[0].value), ast.unparse(st.test), ast.unparse(st.orelse[0].value))).body[0]
                for y in ast.walk(new):
                    ast.copy_location(y, st)
                    for c_ in ast.iter_child_nodes(y):
                        c_._parent = y
                new._parent = owner
                blk[i] = new
                _invalidate(owner)
                n += 1
    return n


def _boolean_returns(fnode, ref_entry):
    """return bool(E)   ->   if E: return True      when the reference version of the function answers with the two
                             return False            constants (bool(E) is True when E is true and False otherwise)
    return not E        ->   if E: return False / return True      likewise"""
    rets = set(ref_entry.get("returns", ()))
    if not ({"True", "False"} <= rets) or any(r.startswith(("bool(", "not ")) for r in rets):
        return 0
    n = 0
    for owner, field, blk in _blocks(fnode):
        for i, st in enumerate(blk):
            if not (isinstance(st, ast.Return) and st.value is not None):
                continue
            v = st.value
            if isinstance(v, ast.Call) and isinstance(v.func, ast.Name) and v.func.id == "bool" and len(v.args) == 1 and not v.keywords \
                    and not isinstance(v.args[0], ast.Starred) and not _rebinds(fnode, "bool"):
                test, first, second = v.args[0], "True", "False"
            elif isinstance(v, ast.UnaryOp) and isinstance(v.op, ast.Not):
                test, first, second = v.operand, "False", "True"
            elif isinstance(v, ast.IfExp) and all(isinstance(x, ast.Constant) and isinstance(x.value, bool) for x in (v.body, v.orelse)):
                # return A if C else B with constant arms is the if statement it abbreviates
                test, first, second = v.test, repr(v.body.value), repr(v.orelse.value)
            else:
                continue
            new = ast.parse("if %s:\n    return %s\nreturn %s" % (ast.unparse(test), first, second)).body
            for top in new:
                for y in ast.walk(top):
                    ast.copy_location(y, st)
                    for c_ in ast.iter_child_nodes(y):
                        c_._parent = y
                top._parent = owner
            blk[i:i + 1] = new
            _invalidate(owner)
            n += 1
    return n


def _rebinds(fnode, name):
    return any(isinstance(x, ast.Name) and x.id == name and isinstance(x.ctx, (ast.Store, ast.Del)) for x in ast.walk(fnode)) \
        or any(a.arg == name for a in ast.walk(fnode) if isinstance(a, ast.arg))


def _ifexp_assignments(fnode, ref_locals):
    """t = A if C else B   (t a new local)   ->   if C: t = A   else: t = B"""
    n = 0
    for owner, field, blk in _blocks(fnode):
        for i, st in enumerate(blk):
            if isinstance(st, ast.Assign) and len(st.targets) == 1 and isinstance(st.targets[0], ast.Name) and st.targets[0].id not in ref_locals \
                    and isinstance(st.value, ast.IfExp) and i + 1 < len(blk) and isinstance(blk[i + 1], ast.Return) \
                    and sum(1 for x in ast.walk(blk[i + 1]) if isinstance(x, ast.Name) and x.id == st.targets[0].id) == 1:
                # (only in front of the `return` that consumes it: the pair becomes an if / else of returns, below)
                t = st.targets[0].id
                new = ast.parse("if %s:\n    %s = %s\nelse:\n    %s = %s" % (ast.unparse(st.value.test), t, ast.unparse(st.value.body), t, ast.unparse(st.value.orelse))).body[0]
                for y in ast.walk(new):
                    ast.copy_location(y, st)
                    for c_ in ast.iter_child_nodes(y):
                        c_._parent = y
                new._parent = owner
                blk[i] = new
                _invalidate(owner)
                n += 1
    return n


def _tail_duplicate(fnode, ref_locals):
    """S; U   where every way out of the compound statement S ends with assignments `t1 = v1; t2 = v2; ...` of side-effect free
    values to the same new locals, which only U reads (each once): U moves to the ends of S with the values in place"""
    n = 0
    changed = True
    while changed:
        changed = False
        for owner, field, blk in _blocks(fnode):
            for i in range(len(blk) - 1):
                s1, u = blk[i], blk[i + 1]
                if not isinstance(s1, (ast.If, ast.Try)) or not isinstance(u, (ast.Return, ast.Expr, ast.Assign)):
                    continue
                leaves = _leaves(s1)
                if not leaves:
                    continue

                def trailing(l):
                    out = {}
                    for st in reversed(l):
                        if isinstance(st, ast.Assign) and len(st.targets) == 1 and isinstance(st.targets[0], ast.Name) and st.targets[0].id not in out \
                                and st.targets[0].id not in ref_locals and not st.targets[0].id.startswith("_h"):
                            out[st.targets[0].id] = st
                        else:
                            break
                    return out
                trails = [trailing(l) for l in leaves]
                names = set(trails[0]) if trails else set()
                for t_ in trails[1:]:
                    names &= set(t_)
                # only temporaries that U reads exactly once and nothing else reads
                good = set()
                for t in sorted(names):
                    occ = [x for x in walk_own(fnode) if isinstance(x, ast.Name) and x.id == t]
                    loads = [x for x in occ if isinstance(x.ctx, ast.Load)]
                    if len(loads) == 1 and len(occ) == len(leaves) + 1 and any(x is loads[0] for x in ast.walk(u)) \
                            and not _inside(loads[0], (ast.Lambda, ast.ListComp, ast.SetComp, ast.DictComp, ast.GeneratorExp), u) \
                            and all(_pure_over_locals(tr[t].value, None) or _chain(tr[t].value) is not None or isinstance(tr[t].value, ast.Constant) for tr in trails):
                        good.add(t)
                if not good:
                    continue
                # the temporaries must be the *last* statements of every leaf (nothing else in between them and U)
                if not all(all(isinstance(st, ast.Assign) and st.targets[0].id in tr for st in l[len(l) - len(tr):]) for l, tr in zip(leaves, trails)):
                    continue
                if isinstance(u, ast.Assign) and any(isinstance(x, ast.Name) and x.id in good and isinstance(x.ctx, ast.Store) for x in ast.walk(u)):
                    continue
                # when U does not leave the function, statements after U follow every leaf anyway: only legal when all trailing
                # temporaries of the leaves are consumed (otherwise a leaf's other temporaries would be separated from their reader)
                if any(set(tr) - good for tr in trails):
                    continue
                for l, tr in zip(leaves, trails):
                    rep = ast.parse(ast.unparse(u)).body[0]

                    class _R(ast.NodeTransformer):
                        def visit_Name(self, node, tr=tr):
                            if node.id in good and isinstance(node.ctx, ast.Load):
                                return ast.parse("(%s)" % ast.unparse(tr[node.id].value), mode="eval").body
                            return node
                    rep = _R().visit(rep)
                    ast.fix_missing_locations(rep)
                    rep = ast.parse(ast.unparse(rep)).body[0]
                    parent = l[-1]._parent
                    for y in ast.walk(rep):
                        ast.copy_location(y, u)
                        for c_ in ast.iter_child_nodes(y):
                            c_._parent = y
                    rep._parent = parent
                    sink = _sink_of(l)
                    if sink is l:
                        l[len(l) - len(tr):] = [rep]
                    else:
                        if len(l) > len(tr):
                            del l[len(l) - len(tr):]
                        else:
                            l[:] = [ast.copy_location(ast.Pass(), u)]
                            l[0]._parent = parent
                        sink.append(rep)
                del blk[i + 1]
                _invalidate(owner)
                n += 1
                changed = True
                break
            if changed:
                break
    return n


def _inline_generator(repo, hq, h, params, decos, done):
    """for T in gen(args): BODY   where gen is a new generator function whose yields are plain statements:
    the generator's body takes the place of the loop, each `yield E` becoming `T = E; BODY`"""
    if any(isinstance(x, (ast.YieldFrom, ast.Return, ast.Await, ast.Global, ast.Nonlocal, ast.Try, ast.With)) for x in ast.walk(h.node)):
        raise _Refuse("generator shape")
    ys = [x for x in ast.walk(h.node) if isinstance(x, ast.Yield)]
    if not all(isinstance(getattr(y, "_parent", None), ast.Expr) and y.value is not None for y in ys):
        raise _Refuse("yield used as an expression")
    is_method = h.cls is not None and "staticmethod" not in decos
    call_params = params[1:] if is_method else params
    sites = []
    for q, fi in repo.funcs.items():
        if fi.is_lambda or fi is h:
            continue
        for c in walk_own(fi.node):
            if isinstance(c, ast.Name) and c.id == h.name and not (isinstance(getattr(c, "_parent", None), ast.Call) and c._parent.func is c):
                raise _Refuse("generator referenced as a value")
            if isinstance(c, ast.Call) and norm_name(c.func) == h.name:
                p_ = getattr(c, "_parent", None)
                if not (isinstance(p_, ast.For) and p_.iter is c and not p_.orelse and isinstance(p_.target, ast.Name)):
                    raise _Refuse("generator not consumed by a plain for loop")
                if h.cls is None and not (isinstance(c.func, ast.Name) and fi.module is h.module):
                    raise _Refuse("receiver")
                if h.cls is not None and not (isinstance(c.func, ast.Attribute) and isinstance(c.func.value, ast.Name) and c.func.value.id in ("self", "cls", h.cls.name)):
                    raise _Refuse("receiver")
                # the consumer's body must not use continue / break of the replaced loop
                def own_jumps(stmts):
                    for s_ in stmts:
                        if isinstance(s_, (ast.Continue, ast.Break)):
                            return True
                        if isinstance(s_, (ast.For, ast.While, ast.AsyncFor)):
                            continue
                        for f in ("body", "orelse", "finalbody", "handlers"):
                            sub = getattr(s_, f, None)
                            if isinstance(sub, list) and sub:
                                inner = [x.body for x in sub] if f == "handlers" else [sub]
                                for b in inner:
                                    if own_jumps(b):
                                        return True
                    return False
                if own_jumps(p_.body):
                    raise _Refuse("continue / break in the consuming loop")
                if any(isinstance(x, ast.Starred) for x in c.args) or c.keywords or len(c.args) != len(call_params):
                    raise _Refuse("arguments")
                if not all(isinstance(a_, (ast.Name, ast.Constant)) for a_ in c.args):
                    raise _Refuse("argument not simple")
                sites.append((fi, c, p_))
    if not sites:
        return False
    h_locals = {n for n, _ in _bound_names(h.node)[0]}
    for (fi, c, loop) in sites:
        mapping = {p_: ast.unparse(a_) for p_, a_ in zip(call_params, c.args)}
        if is_method:
            mapping[params[0]] = c.func.value.id
        caller_names = {n for n, _ in _bound_names(fi.node)[0]} | set(fi.params)
        for n in sorted(h_locals):
            if n in caller_names and n not in mapping:
                mapping[n] = n + "__g"
        body_src = "\n".join(ast.unparse(s_) for s_ in loop.body)
        tgt = loop.target.id

        class _Y(ast.NodeTransformer):
            def visit_Expr(self, node):
                if isinstance(node.value, ast.Yield):
                    return [ast.parse("%s = %s" % (tgt, ast.unparse(node.value.value))).body[0]] + ast.parse(body_src).body
                return self.generic_visit(node)
        gbody = [s_ for s_ in h.node.body if not (isinstance(s_, ast.Expr) and isinstance(s_.value, ast.Constant) and isinstance(s_.value.value, str))]
        gbody = ast.parse("\n".join(ast.unparse(s_) for s_ in gbody)).body
        mod = ast.Module(body=gbody, type_ignores=[])
        mod = _SubstNames(mapping).visit(mod)      # generator locals / parameters first, the consumer's body is spliced in afterwards
        mod = _Y().visit(mod)
        ast.fix_missing_locations(mod)
        fresh = ast.parse(ast.unparse(mod)).body
        blk, idx = _block_of(loop)
        if blk is None:
            raise _Refuse("loop not in a block")
        owner = loop._parent
        for s_ in fresh:
            for y in ast.walk(s_):
                ast.copy_location(y, loop)
                for ch in ast.iter_child_nodes(y):
                    ch._parent = y
            s_._parent = owner
            s_._inlined_from = hq
        blk[idx:idx + 1] = fresh
        _invalidate(owner)
        done.setdefault(fi.qual, []).append(h.name)
    del repo.funcs[hq]
    if h.cls is not None:
        h.cls.methods.pop(h.name, None)
        lst = repo.by_name_methods.get(h.name, [])
        if h in lst:
            lst.remove(h)
    else:
        h.module.funcs.pop(h.name, None)
    return True


def _clear_analysis_caches():
    from . import cfg as _cfg, defuse as _du
    _cfg._CACHE.clear()
    _du._DU.clear()


def _reaching_sets(fi, names):
    """{id(load node): frozenset(definition cfg nodes)} for the loads of the given names (fresh CFG / def-use)"""
    _clear_analysis_caches()
    from .defuse import DefUse
    du = DefUse(fi)
    out = {}
    for n in walk_own(fi.node):
        if isinstance(n, ast.Name) and isinstance(n.ctx, ast.Load) and n.id in names:
            node = du.cfg.node_of(n)
            if node is None:
                out[id(n)] = None
                continue
            out[id(n)] = frozenset(d[0] for d in du.reaching(n.id, node.id))
    return out


def _merge_renamed_locals(fi):
    """a local that the inlining renamed to x__h / x__g because the caller has a local x: when the two never hold a value the
    other one reads (every read keeps exactly the definitions that reached it before), they can share the name x again - which
    is what the code looked like before the helper was extracted"""
    names = sorted({n.id for n in walk_own(fi.node) if isinstance(n, ast.Name) and (n.id.endswith("__h") or n.id.endswith("__g"))}
                   | {h.name for h in walk_own(fi.node) if isinstance(h, ast.ExceptHandler) and h.name and (h.name.endswith("__h") or h.name.endswith("__g"))})
    for a in names:
        b = a[:-3]
        try:
            before = _reaching_sets(fi, {a, b})
            if any(v is None for v in before.values()):
                continue
            _rename(fi.node, {a: b})
            after = _reaching_sets(fi, {b})
            if any(after.get(k) != v for k, v in before.items()):
                # undo
                for n in walk_own(fi.node):
                    if isinstance(n, ast.Name) and getattr(n, "_orig_id", None) == a and n.id == b:
                        n.id = a
                        _invalidate(n)
                    if isinstance(n, ast.ExceptHandler) and getattr(n, "_orig_name", None) == a and n.name == b:
                        n.name = a
            else:
                for n in walk_own(fi.node):
                    if isinstance(n, ast.Name) and getattr(n, "_orig_id", None) == a:
                        del n._orig_id
            _invalidate(fi.node)
        except Exception:
            continue
    _clear_analysis_caches()


def _setattr_only_on_own(fi):
    """every setattr / delattr of the method targets its own receiver or a fresh instance of its own class (x = cls())"""
    recv = fi.params[0] if fi.params else None
    fresh = set()
    for n in walk_own(fi.node):
        if isinstance(n, ast.Assign) and len(n.targets) == 1 and isinstance(n.targets[0], ast.Name) and isinstance(n.value, ast.Call) and not n.value.args \
                and isinstance(n.value.func, ast.Name) and n.value.func.id == recv:
            fresh.add(n.targets[0].id)
    for n in walk_own(fi.node):
        if isinstance(n, ast.Call) and isinstance(n.func, ast.Name) and n.func.id in ("setattr", "delattr"):
            if not (n.args and isinstance(n.args[0], ast.Name) and (n.args[0].id == recv or n.args[0].id in fresh)):
                return False
    return True


def _split_tuple_assignments(fnode, ref_locals):
    """a, b = x, y   ->   a = x; b = y   when no target is read by a later element (the parallel assignment is only a spelling)"""
    n = 0
    for owner, field, blk in _blocks(fnode):
        i = 0
        while i < len(blk):
            st = blk[i]
            if isinstance(st, ast.Assign) and len(st.targets) == 1 and isinstance(st.targets[0], ast.Tuple) and isinstance(st.value, ast.Tuple) \
                    and len(st.targets[0].elts) == len(st.value.elts) >= 2 and all(isinstance(t, ast.Name) for t in st.targets[0].elts) \
                    and not any(isinstance(v, ast.Starred) for v in st.value.elts):
                tg = [t.id for t in st.targets[0].elts]
                ok = len(set(tg)) == len(tg)
                for k, v in enumerate(st.value.elts):
                    if k > 0 and any(isinstance(x, ast.Name) and x.id in tg[:k] for x in ast.walk(v)):
                        ok = False
                    if any(isinstance(x, (ast.Call, ast.Await, ast.Yield, ast.NamedExpr)) for x in ast.walk(v)) and k > 0 and False:
                        ok = False
                if ok:
                    new = [ast.parse("%s = %s" % (t, ast.unparse(v))).body[0] for t, v in zip(tg, st.value.elts)]
                    for s_ in new:
                        for y in ast.walk(s_):
                            ast.copy_location(y, st)
                            for c_ in ast.iter_child_nodes(y):
                                c_._parent = y
                        s_._parent = owner
                    blk[i:i + 1] = new
                    _invalidate(owner)
                    n += 1
                    i += len(new)
                    continue
            i += 1
    return n
