"""Reference names: translation of renamed locals / parameters back to the names the rules were written against.

The rules identify constructs by structure (dominance, def-use, call targets) but many of their *reports and text
comparisons* mention local variable names.  A refactoring that renames a local is behaviour-preserving and must not change
a verdict.  /verif/rules/refnames.json records, for every function of the analysed modules, each local's *abstract first
binding* - the text of the statement that first binds it, with every local name replaced by `_` - and each parameter's
position.  When the current tree is indexed, a local whose abstract first binding matches a recorded one (uniquely, or in the
same order among equal ones) but whose name differs is renamed *in the in-memory AST only* to the recorded name (the original
is kept in node._orig_id).  The table is used for translation only, never for a verdict: a function that was really edited
simply keeps its own names where nothing matches."""
import ast
import json
import os

from .index import walk_own

HERE = os.path.dirname(os.path.dirname(os.path.abspath(__file__)))
REF_PATH = os.path.join(HERE, "rules", "refnames.json")


def _bound_names(fnode):
    """local names bound in the function's own body, in order of first binding, with the binding statement"""
    order = []
    seen = set()
    params = set()
    a = fnode.args
    for x in a.posonlyargs + a.args + a.kwonlyargs:
        params.add(x.arg)
    if a.vararg:
        params.add(a.vararg.arg)
    if a.kwarg:
        params.add(a.kwarg.arg)
    glob = set()
    for n in walk_own(fnode):
        if isinstance(n, (ast.Global, ast.Nonlocal)):
            glob |= set(n.names)
    comp_bound = set()
    for n in walk_own(fnode):
        if isinstance(n, (ast.ListComp, ast.SetComp, ast.DictComp, ast.GeneratorExp)):
            for g in n.generators:
                for t in ast.walk(g.target):
                    if isinstance(t, ast.Name):
                        comp_bound.add(id(t))
        if isinstance(n, ast.Lambda):
            pass
    for n in walk_own(fnode):
        stores = []
        if isinstance(n, ast.Name) and isinstance(n.ctx, ast.Store) and id(n) not in comp_bound:
            stores.append((n.id, n))
        elif isinstance(n, ast.ExceptHandler) and n.name:
            stores.append((n.name, n))
        for (name, node) in stores:
            if name in params or name in glob or name in seen:
                continue
            seen.add(name)
            st = node
            while st is not None and not isinstance(st, (ast.stmt, ast.ExceptHandler)):
                st = getattr(st, "_parent", None)
            order.append((name, st))
    return order, params


def _nested_uses(fnode):
    """names referenced inside nested function definitions (closures): excluded from renaming"""
    out = set()
    for n in walk_own(fnode):
        for c in ast.iter_child_nodes(n):
            if isinstance(c, (ast.FunctionDef, ast.AsyncFunctionDef, ast.ClassDef)):
                for x in ast.walk(c):
                    if isinstance(x, ast.Name):
                        out.add(x.id)
    for c in fnode.body:
        if isinstance(c, (ast.FunctionDef, ast.AsyncFunctionDef, ast.ClassDef)):
            for x in ast.walk(c):
                if isinstance(x, ast.Name):
                    out.add(x.id)
    return out


class _Abstract(ast.NodeTransformer):
    def __init__(self, locals_):
        self.locals = locals_

    def visit_Name(self, node):
        if node.id in self.locals:
            return ast.copy_location(ast.Name(id="_", ctx=node.ctx), node)
        return node

    def visit_ExceptHandler(self, node):
        self.generic_visit(node)
        if node.name in self.locals:
            node.name = "_"
        return node

    def _comp(self, node):
        # names bound by the comprehension itself are its own scope: canonical names c0, c1, ... (never the function's locals)
        bound = []
        for g in node.generators:
            for t in ast.walk(g.target):
                if isinstance(t, ast.Name) and t.id not in bound:
                    bound.append(t.id)
        saved = self.locals
        self.locals = set(saved) - set(bound)
        ren = {b: "c%d" % i for i, b in enumerate(bound)}
        self.generic_visit(node)
        for x in ast.walk(node):
            if isinstance(x, ast.Name) and x.id in ren:
                x.id = ren[x.id]
        self.locals = saved
        return node

    visit_ListComp = visit_SetComp = visit_DictComp = visit_GeneratorExp = _comp


def _abstract_text(st, locals_, name):
    """text of the binding statement's *header* with locals abstracted, plus the position of `name` among its stores"""
    if st is None:
        return "?"
    # header only: for compound statements take the part that binds
    if isinstance(st, (ast.For, ast.AsyncFor)):
        hdr = ast.Tuple(elts=[st.target, st.iter], ctx=ast.Load())
    elif isinstance(st, (ast.With, ast.AsyncWith)):
        hdr = ast.Tuple(elts=[i.context_expr for i in st.items] + [i.optional_vars for i in st.items if i.optional_vars is not None], ctx=ast.Load())
    elif isinstance(st, ast.ExceptHandler):
        hdr = st.type if st.type is not None else ast.Constant(value="except")
        pos = 0
        clone = ast.parse(ast.unparse(hdr), mode="eval").body
        return "except %s as _#0" % ast.unparse(_Abstract(locals_).visit(clone))
    else:
        hdr = st
    stores = [n.id for n in ast.walk(hdr) if isinstance(n, ast.Name) and isinstance(n.ctx, ast.Store)]
    pos = stores.index(name) if name in stores else -1
    try:
        src = ast.unparse(hdr)
        clone = ast.parse(src).body[0] if isinstance(hdr, ast.stmt) else ast.parse(src, mode="eval").body
    except Exception:
        return "?"
    text = ast.unparse(_Abstract(locals_).visit(clone))
    return "%s#%d" % (text, pos)


def describe(fnode):
    order, params = _bound_names(fnode)
    locals_ = {n for n, _ in order}
    a = fnode.args
    plist = [x.arg for x in a.posonlyargs + a.args] + ([a.vararg.arg] if a.vararg else []) + [x.arg for x in a.kwonlyargs] + ([a.kwarg.arg] if a.kwarg else [])
    return {"params": plist, "locals": [[n, _abstract_text(st, locals_, n)] for (n, st) in order]}


def build_reference(repo, modules):
    ref = {}
    for q, fi in repo.funcs.items():
        if fi.module.name in modules and not fi.is_lambda:
            ref[q] = describe(fi.node)
    return ref


def load_reference():
    try:
        with open(REF_PATH) as f:
            return json.load(f)
    except Exception:
        return {}


def apply_reference(repo):
    """rename locals / parameters of the in-memory ASTs to the reference names where the structure matches"""
    ref = load_reference()
    renamed = {}
    for q, fi in repo.funcs.items():
        if fi.is_lambda or q not in ref:
            continue
        cur = describe(fi.node)
        r = ref[q]
        mapping = {}
        # parameters: positional, same arity
        if len(cur["params"]) == len(r["params"]):
            for a, b in zip(cur["params"], r["params"]):
                if a != b:
                    mapping[a] = b
        # locals: by abstract first binding, k-th occurrence to k-th occurrence
        from collections import defaultdict
        ck, rk = defaultdict(list), defaultdict(list)
        for n, t in cur["locals"]:
            ck[t].append(n)
        for n, t in r["locals"]:
            rk[t].append(n)
        nested = _nested_uses(fi.node)
        for t, names in ck.items():
            if t in rk and len(rk[t]) == len(names):
                for a, b in zip(names, rk[t]):
                    if a != b and a not in nested:
                        mapping[a] = b
        # never merge two names or capture an existing one
        cur_names = set(cur["params"]) | {n for n, _ in cur["locals"]}
        targets = list(mapping.values())
        mapping = {a: b for a, b in mapping.items() if targets.count(b) == 1 and (b not in cur_names or b in mapping)}
        if not mapping:
            continue
        renamed[q] = dict(mapping)
        _rename(fi.node, mapping)
    return renamed


def _rename(fnode, mapping):
    a = fnode.args
    for x in a.posonlyargs + a.args + a.kwonlyargs + ([a.vararg] if a.vararg else []) + ([a.kwarg] if a.kwarg else []):
        if x.arg in mapping:
            x._orig_arg = x.arg
            x.arg = mapping[x.arg]
    lam_params = []

    def walk(n, shadow):
        for c in ast.iter_child_nodes(n):
            if isinstance(c, (ast.FunctionDef, ast.AsyncFunctionDef, ast.ClassDef)):
                continue
            sh = shadow
            if isinstance(c, ast.Lambda):
                ps = {y.arg for y in c.args.posonlyargs + c.args.args + c.args.kwonlyargs}
                # defaults are evaluated in the enclosing scope
                for d in c.args.defaults + [k for k in c.args.kw_defaults if k is not None]:
                    walk_node(d, shadow)
                walk_node(c.body, shadow | ps)
                continue
            if isinstance(c, (ast.ListComp, ast.SetComp, ast.DictComp, ast.GeneratorExp)):
                bound = set()
                for g in c.generators:
                    for t in ast.walk(g.target):
                        if isinstance(t, ast.Name):
                            bound.add(t.id)
                sh = shadow | bound
            walk_node(c, sh)

    def walk_node(c, shadow):
        if isinstance(c, ast.Name) and c.id in mapping and c.id not in shadow:
            c._orig_id = c.id
            c.id = mapping[c.id]
        if isinstance(c, ast.ExceptHandler) and c.name in mapping and c.name not in shadow:
            c._orig_name = c.name
            c.name = mapping[c.name]
        walk(c, shadow)
    for st in fnode.body:
        walk_node(st, set())
