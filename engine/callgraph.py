"""E6 - call graph over package functions.

Resolution order for a call `f(...)`:
  self.m() / cls.m() / super().m()  -> MRO lookup, plus overriding subclasses (CHA) for self.m()
  Name()                           -> module function, class constructor (__init__), nested def
  mod.f() / Class.m()              -> through import resolution
  recv.m() with inferred receiver  -> constructor assignments  self.x = Class(...)  / x = Class(...)
  otherwise                        -> every package method named m (over-approximation, 'approx')
Function values are followed where passed as arguments to a small set of
"calls-its-argument" library functions (reactor.callFromThread) and through
`obj.attr = self.method` rebinding (TwistedServer.__init__).
"""
import ast

from .index import norm, walk_own, attr_chain

CALLS_ARGUMENT = {"reactor.callFromThread": 0, "reactor.callLater": 1, "reactor.callInThread": 0}
SPAWNS = ("start",)      # Thread.start(): a spawn, not a call edge


class Edge(object):
    __slots__ = ("caller", "callee", "call", "approx", "how")

    def __init__(self, caller, callee, call, approx, how):
        self.caller = caller
        self.callee = callee
        self.call = call
        self.approx = approx
        self.how = how

    def __repr__(self):
        return "<%s -> %s%s>" % (self.caller.qual, self.callee.qual, " ~" if self.approx else "")


class CallGraph(object):
    def __init__(self, repo, type_hints=None):
        self.repo = repo
        self.type_hints = type_hints or {}     # receiver text -> class qual (documented by the rule)
        self.attr_types = {}                   # (class qual, attr) -> set(class qual)
        self.rebinds = {}                      # method name -> [FuncInfo] for  x.send = self.sendPackets
        self.edges = []
        self.out = {}
        self.inn = {}
        self.unresolved = []
        self.external = []
        self._infer_attr_types()
        for fi in repo.all_functions():
            for call in [n for n in walk_own(fi.node) if isinstance(n, ast.Call)]:
                self._add_call(fi, call)
        for e in self.edges:
            self.out.setdefault(e.caller.qual, []).append(e)
            self.inn.setdefault(e.callee.qual, []).append(e)

    # ------------------------------------------------------------ inference

    def _infer_attr_types(self):
        repo = self.repo
        for fi in repo.all_functions():
            for n in walk_own(fi.node):
                if isinstance(n, ast.Assign) and isinstance(n.value, ast.Call):
                    ci = repo.resolve_class_expr(fi.module, n.value.func)
                    if ci is None:
                        continue
                    for t in n.targets:
                        if isinstance(t, ast.Attribute) and isinstance(t.value, ast.Name) and t.value.id == "self" and fi.cls:
                            self.attr_types.setdefault((fi.cls.qual, t.attr), set()).add(ci.qual)
                elif isinstance(n, ast.Assign) and isinstance(n.value, ast.Attribute):
                    # obj.attr = self.method   (rebinding a method slot)
                    ch = attr_chain(n.value)
                    if ch and ch[0] == "self" and len(ch) == 2 and fi.cls is not None:
                        target = repo.resolve_method(fi.cls, ch[1])
                        if target is not None:
                            for t in n.targets:
                                if isinstance(t, ast.Attribute):
                                    self.rebinds.setdefault(t.attr, []).append(target)

    def local_type(self, fi, name):
        """class of a local variable assigned from a constructor call in the same function"""
        out = set()
        for n in walk_own(fi.node):
            if isinstance(n, ast.Assign) and isinstance(n.value, ast.Call):
                for t in n.targets:
                    if isinstance(t, ast.Name) and t.id == name:
                        ci = self.repo.resolve_class_expr(fi.module, n.value.func)
                        if ci is not None:
                            out.add(ci.qual)
        return out

    def receiver_classes(self, fi, recv):
        """possible classes (ClassInfo list) of receiver expression `recv`, or None if unknown"""
        repo = self.repo
        text = norm(recv)
        if text in self.type_hints:
            return [repo.cls(q) for q in _as_list(self.type_hints[text])]
        if isinstance(recv, ast.Name):
            if recv.id == "self" and fi.cls is not None and not fi.is_static:
                return [fi.cls] + repo.subclasses(fi.cls)
            if recv.id == "self" and fi.parent is not None and fi.parent.cls is not None:
                return [fi.parent.cls] + repo.subclasses(fi.parent.cls)
            if recv.id == "cls" and fi.cls is not None:
                return [fi.cls] + repo.subclasses(fi.cls)
            lt = self.local_type(fi, recv.id)
            if lt:
                return [repo.classes[q] for q in lt]
            return None
        if isinstance(recv, ast.Call) and norm(recv.func) == "super":
            owner = fi.cls or (fi.parent.cls if fi.parent else None)
            if owner is not None:
                return [("super", owner)]
            return None
        if isinstance(recv, ast.Attribute):
            base = self.receiver_classes(fi, recv.value)
            if base:
                out = []
                for b in base:
                    if isinstance(b, tuple):
                        continue
                    for c in repo.mro(b):
                        for q in self.attr_types.get((c.qual, recv.attr), ()):
                            if repo.classes[q] not in out:
                                out.append(repo.classes[q])
                if out:
                    return out
            return None
        return None

    # ------------------------------------------------------------ edges

    def _add(self, fi, target, call, approx, how):
        self.edges.append(Edge(fi, target, call, approx, how))

    def _add_call(self, fi, call):
        repo = self.repo
        func = call.func
        name = norm(func)
        # function values passed to call-your-argument helpers
        if name in CALLS_ARGUMENT and len(call.args) > CALLS_ARGUMENT[name]:
            fv = call.args[CALLS_ARGUMENT[name]]
            for t in self._resolve_value(fi, fv):
                self._add(fi, t, call, False, "callback-arg")
        if isinstance(func, ast.Name):
            # nested def in the same function?
            q = fi.qual + "." + func.id
            if q in repo.funcs:
                self._add(fi, repo.funcs[q], call, False, "nested")
                return
            if fi.parent is not None and (fi.parent.qual + "." + func.id) in repo.funcs:
                self._add(fi, repo.funcs[fi.parent.qual + "." + func.id], call, False, "sibling")
                return
            r = repo.resolve_name(fi.module, func.id)
            if r and r[0] == "func":
                self._add(fi, r[1], call, False, "module-func")
            elif r and r[0] == "class":
                init = repo.resolve_method(r[1], "__init__")
                if init is not None:
                    self._add(fi, init, call, False, "ctor")
                new = repo.resolve_method(r[1], "__new__")
                if new is not None:
                    self._add(fi, new, call, False, "ctor")
            else:
                if func.id not in _BUILTIN_NAMES and not self._is_local(fi, func.id):
                    self.unresolved.append((fi, call))
                elif self._is_local(fi, func.id):
                    # call of a local/parameter function value: unknown target
                    self.unresolved.append((fi, call))
            return
        if isinstance(func, ast.Attribute):
            m = func.attr
            recv = func.value
            # Class.m() / module.f()
            if isinstance(recv, ast.Name):
                r = repo.resolve_name(fi.module, recv.id)
                if r and r[0] == "class" and not self._is_local(fi, recv.id):
                    t = repo.resolve_method(r[1], m)
                    if t is not None:
                        self._add(fi, t, call, False, "class-attr")
                        return
                if r and r[0] == "module" and not self._is_local(fi, recv.id):
                    r2 = repo.resolve_name(r[1], m)
                    if r2 and r2[0] == "func":
                        self._add(fi, r2[1], call, False, "module-attr")
                        return
                    if r2 and r2[0] == "class":
                        init = repo.resolve_method(r2[1], "__init__")
                        if init is not None:
                            self._add(fi, init, call, False, "ctor")
                        return
                if r and r[0] in ("extmodule", "external") and not self._is_local(fi, recv.id):
                    return      # library call
            classes = self.receiver_classes(fi, recv)
            if classes:
                found = False
                for c in classes:
                    if isinstance(c, tuple) and c[0] == "super":
                        mro = repo.mro(c[1])[1:]
                        for b in mro:
                            if m in b.methods:
                                self._add(fi, b.methods[m], call, False, "super")
                                found = True
                                break
                        continue
                    t = repo.resolve_method(c, m)
                    if t is not None:
                        self._add(fi, t, call, False, "typed")
                        found = True
                if m in self.rebinds:
                    for t in self.rebinds[m]:
                        self._add(fi, t, call, False, "rebound")
                if found:
                    return
                # receiver class known (or super()): a method that is not defined in the package is
                # inherited from a library base / object, or is an attribute holding a library callable:
                # no package edge.  (rebound slots were added above.)
                if m not in self.rebinds:
                    self.external.append((fi, call))
                return
            # by-name over-approximation
            cands = repo.by_name_methods.get(m, [])
            if m in SPAWNS or (m.startswith("__") and m.endswith("__")):
                return
            for t in cands:
                self._add(fi, t, call, True, "by-name")
            for t in self.rebinds.get(m, []):
                self._add(fi, t, call, True, "rebound")
            if not cands:
                self.unresolved.append((fi, call))

    def _resolve_value(self, fi, expr):
        repo = self.repo
        ch = attr_chain(expr)
        if ch and ch[0] == "self" and len(ch) == 2 and fi.cls is not None:
            t = repo.resolve_method(fi.cls, ch[1])
            return [t] if t else []
        if isinstance(expr, ast.Name):
            r = repo.resolve_name(fi.module, expr.id)
            if r and r[0] == "func":
                return [r[1]]
        return []

    @staticmethod
    def _is_local(fi, name):
        if name in fi.params:
            return True
        for n in walk_own(fi.node):
            if isinstance(n, ast.Name) and n.id == name and isinstance(n.ctx, ast.Store):
                return True
        return False

    # ------------------------------------------------------------ queries

    def callees(self, qual):
        return self.out.get(qual, [])

    def callers(self, qual):
        return self.inn.get(qual, [])

    def reachable(self, start_quals, stop=()):
        """quals reachable through call edges; returns dict qual -> predecessor edge"""
        seen = {}
        stack = []
        for q in start_quals:
            seen[q] = None
            stack.append(q)
        while stack:
            q = stack.pop()
            if q in stop:
                continue
            for e in self.out.get(q, []):
                if e.callee.qual not in seen:
                    seen[e.callee.qual] = e
                    stack.append(e.callee.qual)
        return seen

    def chain(self, seen, qual):
        out = []
        while seen.get(qual) is not None:
            e = seen[qual]
            out.append("%s -> %s%s" % (e.caller.qual, e.callee.qual, " (by-name)" if e.approx else ""))
            qual = e.caller.qual
        return list(reversed(out))


def _as_list(x):
    return x if isinstance(x, (list, tuple)) else [x]


import builtins as _b
_BUILTIN_NAMES = set(dir(_b))
