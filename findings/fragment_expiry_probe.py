"""Probe for the known finding C05.R7 / C07.R6 (run by hand: cd /repo && /venv/bin/python /verif/findings/fragment_expiry_probe.py).
Two guaranteed fragmented messages A (2 fragments) and B. The datagram carrying A's fragment 2 is lost twice; B is sent 2.03 s after
A. When B's first fragment arrives, A's reassembly context is older than 1.0 + 0.5*2 s and is purged by the expiry in
_recvAppFragment. A's re-sent fragment 2 then opens a fresh context that can never complete: A is never delivered although the
connection stays open, the network healed and A's callback reports True.  Expected output on the pinned tree (and today):
    delivered: [b'\\x02'] callbacks: [('B', True), ('A', True)] open receivers: [1]"""
import struct
import time
from mpgameserver.connection import *

now = [1000.0]
time.time = lambda: now[0]          # FragmentReceiver.expired() reads time.time directly
key = b"0" * 16
a = ConnectionBase(False, None); a.session_key_bytes = key; a.status = ConnectionStatus.CONNECTED; a.clock = lambda: now[0]
b = ConnectionBase(True, None); b.session_key_bytes = key; b.status = ConnectionStatus.CONNECTED; b.clock = lambda: now[0]
res = []
A = bytes([1]) * 2000
B = bytes([2]) * 2000
a.send(A, retry=RetryMode.RETRY_ON_TIMEOUT, callback=lambda ok: res.append(("A", ok)))
drops = [2]
sentB = False


def tick():
    now[0] += 1 / 60
    pkt = a._build_packet()
    if pkt is not None:
        d = a._encode_packet(pkt)
        isA2 = any(m.type == PacketType.APP_FRAGMENT and m.payload[:6] == struct.pack(">HHH", 1, 2, 2) for m in pkt.msgs)
        if isA2 and drops[0] > 0:
            drops[0] -= 1
        else:
            b._recv_datagram(PacketHeader.from_bytes(True, d), d)
    a._check_timeout(now[0])
    pkt = b._build_packet()
    if pkt is not None:
        d = b._encode_packet(pkt)
        a._recv_datagram(PacketHeader.from_bytes(False, d), d)
    b._check_timeout(now[0])


t0 = now[0]
while now[0] - t0 < 6:
    if not sentB and now[0] - t0 > 2.03:
        a.send(B, retry=RetryMode.RETRY_ON_TIMEOUT, callback=lambda ok: res.append(("B", ok)))
        sentB = True
    tick()
print("delivered:", [m[1][:1] for m in b.incoming_messages], "callbacks:", res, "open receivers:", list(b.received_fragments))
