#!/venv/bin/python
"""writes /verif/rules/refnames.json from the current /repo tree (run by hand after /repo legitimately changed)"""
import json, os, sys
HERE = os.path.dirname(os.path.dirname(os.path.abspath(__file__)))
sys.path.insert(0, HERE)
from engine.index import Repo
from engine import refnames
os.environ["VERIF_NO_REFNAMES"] = "1"
repo = Repo("/repo")
mods = ("connection", "client", "server", "context", "twisted", "serializable", "http_server", "auth", "dispatch", "crypto", "handler")
ref = refnames.build_reference(repo, mods)
json.dump(ref, open(refnames.REF_PATH, "w"), indent=0, sort_keys=True)
print(len(ref), "functions")
