#!/bin/bash
# tools/scratch_benign.sh <name> : scratch copy with the benign patch applied; prints its path (caller removes it)
n=$1
d=$(mktemp -d /tmp/bn_XXXXXX); cp -r /repo/mpgameserver $d/; (cd $d && git init -q . 2>/dev/null; git apply --whitespace=nowarn /verif/benign/$n/patch.diff) || { echo apply failed; exit 2; }
echo $d
