#!/bin/bash
# proc_benign.sh Cnn : confirm + file as R6-Cnn + all 20 checks on it (base and now)
p=$1; name=${2:-R6}-$p; src=/tmp/r9/b/$p/_seed
[ -f $src/patch.diff ] || (cd /tmp/r9/b/$p && git diff -- mpgameserver > _seed/patch.diff)
/verif/tools/confirm_benign.sh $src $name | tail -5
[ -d /verif/benign/$name ] || exit 1
d=$(/verif/tools/scratch_benign.sh $name)
for chk in /tmp/verif_base/check /verif/check; do
 echo "--- $chk"
 for i in $(seq -w 1 20); do out=$($chk C$i --root $d --no-evidence --evidence-dir $d); rc=$?; [ $rc != 0 ] && echo "C$i exit=$rc $(echo "$out" | grep -o 'rule=[A-Z0-9.]*' | sort -u | tr '\n' ' ') $(echo "$out" | grep ANALYSIS | head -2 | cut -c1-300)"; done
done
rm -rf $d
