#!/venv/bin/python
"""quick manual mutation probe:  tools/mut.py <prop> <file> <old> <new>
copies /repo/mpgameserver to a scratch dir, replaces `old` by `new` (exactly once) in file, runs
./check <prop> --root scratch --no-evidence, removes the scratch dir."""
import os, shutil, subprocess, sys, tempfile

def main():
    prop, rel, old, new = sys.argv[1:5]
    d = tempfile.mkdtemp(prefix="vmut_")
    try:
        shutil.copytree("/repo/mpgameserver", os.path.join(d, "mpgameserver"), ignore=shutil.ignore_patterns("__pycache__", "pylon"))
        p = os.path.join(d, "mpgameserver", rel)
        raw = open(p, "rb").read().decode().replace("\r\n", "\n")
        old = old.encode().decode("unicode_escape"); new = new.encode().decode("unicode_escape")
        if raw.count(old) != 1:
            print("old text occurs %d times" % raw.count(old)); return 3
        raw = raw.replace(old, new)
        compile(raw, p, "exec")
        open(p, "w").write(raw)
        r = subprocess.run([os.path.join(os.path.dirname(os.path.dirname(os.path.abspath(__file__))), "check"), prop, "--root", d, "--no-evidence", "--evidence-dir", d], capture_output=True, text=True)
        print(r.stdout[-3000:], r.stderr[-2000:])
        return r.returncode
    finally:
        shutil.rmtree(d, ignore_errors=True)

sys.exit(main())
