#!/bin/bash
n=$1
d=$(mktemp -d /tmp/sd_XXXXXX); cp -r /repo/mpgameserver $d/; (cd $d && git init -q . 2>/dev/null; git apply --whitespace=nowarn /verif/seeded/$n/patch.diff) || { echo apply failed; rm -rf $d; exit 2; }
for i in $(seq -w 1 20); do out=$(/verif/check C$i --root $d --no-evidence --evidence-dir $d); rc=$?; [ $rc != 0 ] && echo "C$i exit=$rc $(echo "$out" | grep -o 'rule=[A-Z0-9.]*' | sort -u | tr '\n' ' ')"; done
rm -rf $d
