#!/bin/bash
# tools/at_commit.sh <commit> <prop...> : run checks against /repo at an older commit (scratch export, removed afterwards)
set -u
c=$1; shift
d=$(mktemp -d /tmp/vat_XXXXXX)
git -C /repo archive "$c" mpgameserver | tar -x -C "$d"
for p in "$@"; do /verif/check "$p" --root "$d" --no-evidence --evidence-dir "$d"; echo "exit=$?"; done
rm -rf "$d"
