#!/venv/bin/python
"""writes /verif/known_findings.json (run by hand when a finding is triaged; never run by a check)"""
import json, os
HERE = os.path.dirname(os.path.dirname(os.path.abspath(__file__)))
K = "known"
F = "fixed"
findings = [
 # ---- known, not repaired -------------------------------------------------------------------------------------------------
 dict(status=K, property="C04", key="C04.R1|connection:BitField.insert|bitfield_pkt nbits=32 cell=older than window",
      what="BitField.insert (packet window, 32 bits) silently accepts a sequence number older than the window: a datagram replayed after more than 32 newer datagrams is not recognised as a duplicate (connection:BitField.insert, cell diff in [33, 32767])"),
 dict(status=K, property="C04", key="C04.R1|connection:BitField.insert|bitfield_msg nbits=256 cell=older than window",
      what="BitField.insert (message window, 256 bits) silently accepts a message number older than the window: a message re-delivered after more than 256 newer messages is handed to the application twice (connection:BitField.insert, cell diff in [257, 32767])"),
 dict(status=K, property="C05", key="C05.R7|connection:ConnectionBase._recvAppFragment|del self.received_fragments[key]",
      what="the receiver purges an incomplete reassembly context after 1.0 + 0.5*count seconds (connection:ConnectionBase._recvAppFragment, `del self.received_fragments[key]` for expired receivers): a guaranteed fragmented message one of whose fragments is lost twice is silently lost when another fragment arrives meanwhile (probe: findings/fragment_expiry_probe.py)"),
 dict(status=K, property="C07", key="C07.R6|connection:ConnectionBase._recvAppFragment|del self.received_fragments[key]",
      what="the callback of a fragmented send reports True when every fragment's datagram was acked, but the receiver may already have purged the partially reassembled message (expiry in connection:ConnectionBase._recvAppFragment): success is reported for a message the peer never accepted as a whole (probe: findings/fragment_expiry_probe.py)"),
 # ---- fixed ------------------------------------------------------------------------------------------------------------------
 dict(status=F, property="C01", commit="7d8204e", key="C01.R1|connection:Packet.from_bytes|pkt.msg = data[PacketHeader.SIZE:]",
      what="fixed: property=C01 7d8204e Packet.from_bytes took the CRC-only branch for CLIENT_HELLO/SERVER_HELLO-typed datagrams on a keyed connection: a forged hello with count=2 and inner APP messages was delivered, a forged CLIENT_HELLO re-keyed a connected client"),
 dict(status=F, property="C01", commit="7d8204e", key="C01.R5|connection:Packet.from_bytes|key-less branch: packet type in {CLIENT_HELLO, SERVER_HELLO}",
      what="fixed: property=C01 7d8204e the key-less branch of Packet.from_bytes admitted every packet type and message count"),
 dict(status=F, property="C02", commit="7d8204e", key="C02.R5|connection:Packet.from_bytes|key-less branch: packet type in {CLIENT_HELLO, SERVER_HELLO}",
      what="fixed: property=C02 7d8204e a hello with an unsupported version left a key-less temp connection that a plaintext CHALLENGE_RESP with token 0 promoted to connected"),
 dict(status=F, property="C04", commit="c84cff4", key="C04.R3|connection:FragmentSender.callback|no _send_type in a retransmission path",
      what="fixed: property=C04 c84cff4 FragmentSender.callback re-sent a timed out fragment through _send_type, i.e. under a new message number that the duplicate filter cannot match"),
 dict(status=F, property="C06", commit="c84cff4", key="C06.R2|connection:FragmentSender.callback|self.conn._send_type(PacketType.APP_FRAGMENT, self.fragments[index], self.retry, cbk)",
      what="fixed: property=C06 c84cff4 a re-sent fragment was the raw slice without its 6-byte (id, index, count) prefix"),
 dict(status=F, property="C07", commit="b82efe7", key="C07.R4|connection:FragmentSender|stored callback self.user_callback is called",
      what="fixed: property=C07 b82efe7 the callback of a fragmented send was stored and never called; pending_fragments was never emptied"),
 dict(status=F, property="C07", commit="8dfa7b7", key="C07.R3|connection:RetrySender.__call__|success path tests and sets a one-shot flag before notifying the user",
      what="fixed: property=C07 8dfa7b7 the callback of a guaranteed send fired once per acked datagram that carried the message ([True, True] when the ack round trip exceeds the resend interval)"),
 dict(status=F, property="C05", commit="185ceb1", key="C05.R1|connection:ConnectionBase._build_packet_impl|L1[new] T_frag + overhead(1) <= CAP",
      what="fixed: property=C05 185ceb1 payloads of MAX_PAYLOAD_SIZE-1 and MAX_PAYLOAD_SIZE bytes, a last fragment of MAX_PAYLOAD_SIZE-7 bytes and (MTU < 1098) every fragment never fitted into a datagram: _build_packet_impl double-counted the single-message overhead"),
 dict(status=F, property="C05", commit="6227375", key="C05.R2|client:UdpClient.send_guaranteed|unresolved name `RetryMode`",
      what="fixed: property=C05 6227375 UdpClient.send_guaranteed raised NameError (RetryMode not imported)"),
 dict(status=F, property="C09", commit="919e5cb", key="C09.R4|connection:ConnectionBase._build_packet_impl|K messages per datagram <= capacity of the count field",
      what="fixed: property=C09 919e5cb 286 queued empty messages were packed into one datagram (MTU >= 1346): struct.pack('B', 286) raised in to_bytes and the messages were lost"),
 dict(status=F, property="C09", commit="953d762", key="C09.R6|server:UdpServerThread.send|possibly unbound local `datagram`",
      what="fixed: property=C09 953d762 UdpServerThread.send used an unbound/stale datagram after an encoding failure"),
 dict(status=F, property="C11", commit="953d762", key="C11.R3|server:UdpServerThread.send|encoding and socket write are contained per datagram (try/except Exception inside the loop)",
      what="fixed: property=C11 953d762 a client hello from UDP source port 0 made sock.sendto raise OSError(EINVAL) out of UdpServerThread.run: the server loop stopped"),
 dict(status=F, property="C10", commit="6471edc", key="C10.R4|context:ServerContext.get_token|token in self.connections",
      what="fixed: property=C10 6471edc ServerContext.get_token tested the new token against address-keyed pools: a token held by a connected client could be issued again"),
 dict(status=F, property="C12", commit="8de7d95", key="C12.R1|client:UdpClient.setConnectionTimeout|unresolved name `interval`",
      what="fixed: property=C12 8de7d95 UdpClient.setConnectionTimeout/setMessageTimeout raised NameError after connect; connect() stored the keep-alive interval in an attribute the connection never reads"),
 dict(status=F, property="C12", commit="8c7f366", key="C12.R5|connection:ClientServerConnection.update|the connect timeout does not depend on a callback having been given",
      what="fixed: property=C12 8c7f366 without a connect callback an unanswered connect attempt stayed CONNECTING for ever"),
 dict(status=F, property="C16", commit="794721b", key="C16.R1|http_server:Router.patternToRegex|fragment + = '\\\\/?(.+)' begins only with '/'",
      what="fixed: property=C16 794721b route /abc/:name+ matched /abcdef; literal segments were not escaped (/static/index.js matched /static/indexXjs)"),
 dict(status=F, property="C17", commit="8331658", key="C17.R1|http_server:path_join_safe|return path",
      what="fixed: property=C17 8331658 path_join_safe('/srv/www', '/etc/passwd') returned '/etc/passwd'"),
 dict(status=F, property="C18", commit="a70414e", key="C18.R1|http_server:WebSocketFrame.serializeDataHeader|payload_length in [65535, 65535]: header form ['126'], data header [('!H',)]",
      what="fixed: property=C18 a70414e a 65535-byte payload announced the 16-bit form and wrote the 64-bit form; a 127-byte payload was parsed as a 64-bit length"),
 dict(status=F, property="C18", commit="3939a1b", key="C18.R5|http_server:WebSocketTemporaryHandler.__call__|(a) a frame is parsed only when the buffer reports a complete frame",
      what="fixed: property=C18 3939a1b one frame was parsed per TCP read from whatever bytes had arrived: split frames were delivered truncated, a second frame in the same read stayed buffered"),
 dict(status=F, property="C19", commit="6b974f6", key="C19.R1|auth:Auth.verify_password|parts[1] is guarded by a field-count test",
      what="fixed: property=C19 6b974f6 verify_password raised IndexError for a hash string with a missing field ('scrypt:1')"),
 dict(status=F, property="C19", commit="e0b80d1", key="C19.R6|auth:Auth.verify_password|missing: guard relating the embedded digest length to the embedded digest",
      what="fixed: property=C19 e0b80d1 a hash string edited to digest length 0 and cut after the salt verified True for every password"),
 dict(status=F, property="C20", commit="83106f2", key="C20.R2|dispatch:MessageDispatcher.unregister_function|the delete is not guarded by `key not in registered_events`",
      what="fixed: property=C20 83106f2 unregister_function raised exactly when the event was registered and unregister compared a class with the registered names: handlers could never be removed"),
 dict(status=F, property="C19", commit="fb400fa", key="C19.R1|auth:Auth.verify_password|no malformed hash string yields a verdict (True or False)",
      what="fixed: property=C19 fb400fa verify_password decoded its base64 fields leniently (characters outside of the alphabet skipped): a hash string with a blank, a newline or junk characters inserted - e.g. h[:-6] + '!!' + h[-6:] - verified True instead of raising ValueError"),
]
doc = {"comment": "Committed list of genuine defects found by the static checks. status=known entries suppress exactly the obligation with that key "
                  "(the check prints KNOWN-FINDING and exits 0); status=fixed entries are documentation only and suppress nothing: if the construct "
                  "returns the check alarms again. Never written at run time (tools/gen_known.py is run by hand).",
       "findings": findings}
json.dump(doc, open(os.path.join(HERE, "known_findings.json"), "w"), indent=1)
print(len(findings), "entries")
