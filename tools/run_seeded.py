#!/venv/bin/python
"""tools/run_seeded.py [--benign] [<seed dir> ...]  - apply each /verif/seeded/<name>/patch.diff (or /verif/benign/<name>/patch.diff) to /repo, run every quick check, undo.
Prints, per seeded change, the exit status of the target property's check and every rule that fired in any check.
/repo must be clean before; it is restored (git checkout -- .) after each patch, also on error."""
import json, os, subprocess, sys
V = os.path.dirname(os.path.dirname(os.path.abspath(__file__)))
REPO = "/repo"
def sh(*a, **k):
    return subprocess.run(a, capture_output=True, text=True, **k)
def main():
    base = "seeded"
    args = sys.argv[1:]
    if args and args[0] == "--benign":
        base, args = "benign", args[1:]
    names = args or sorted(os.listdir(os.path.join(V, base)))
    if sh("git", "-C", REPO, "status", "--porcelain", "--untracked-files=no").stdout.strip():
        print("refusing: /repo has local modifications"); return 2
    rows = []
    for n in names:
        d = os.path.join(V, base, n)
        patch = os.path.join(d, "patch.diff")
        if not os.path.exists(patch):
            continue
        meta = json.load(open(os.path.join(d, "meta.json")))
        prop = meta["property"]
        r = sh("git", "-C", REPO, "apply", "--whitespace=nowarn", patch)
        if r.returncode != 0:
            rows.append((n, prop, "patch does not apply: " + r.stderr.strip()[:100], [], {}))
            sh("git", "-C", REPO, "checkout", "--", ".")
            continue
        try:
            fired = {}
            target_exit = None
            for i in range(1, 21):
                p = "C%02d" % i
                c = sh(os.path.join(V, "check"), p, "--no-evidence", "--evidence-dir", "/tmp")
                rules = sorted({tok.split("=", 1)[1] for line in c.stdout.splitlines() for tok in line.split() if tok.startswith("rule=")})
                if c.returncode != 0:
                    fired[p] = (c.returncode, rules, [l for l in c.stdout.splitlines() if l.startswith("ANALYSIS-ERROR")][:2])
                if p == prop:
                    target_exit = c.returncode
            rows.append((n, prop, target_exit, fired.get(prop, (0, [], []))[1], {k: v for k, v in fired.items() if k != prop}))
        finally:
            sh("git", "-C", REPO, "checkout", "--", ".")
    for (n, prop, ex, rules, others) in rows:
        print("%-28s %s target_exit=%s rules=%s others=%s" % (n, prop, ex, rules, {k: (v[0], v[1]) for k, v in others.items()}))
    return 0
sys.exit(main())
