"""CRLF-preserving exact replacement helper for small edits to /repo sources.
usage (python):  from edit_repo import replace;  replace(path, old, new)
old/new are written with '\n'; the file's own line terminator is kept."""
import sys


def replace(path, old, new, count=1):
    with open(path, "rb") as f:
        raw = f.read()
    crlf = b"\r\n" in raw
    text = raw.decode("utf-8")
    if crlf:
        text = text.replace("\r\n", "\n")
    n = text.count(old)
    if n != count:
        raise SystemExit("%s: expected %d occurrence(s) of the old text, found %d" % (path, count, n))
    text = text.replace(old, new)
    if crlf:
        text = text.replace("\n", "\r\n")
    with open(path, "wb") as f:
        f.write(text.encode("utf-8"))
