# helpers of the adversarial rounds (DESIGN 8.18-8.21): agent_tasks.py <seed|benign> <worktree root> <Cnn...> writes <root>/<Cnn>/_TASK.md in a fresh worktree of /repo;
# the round_proc_* scripts expect those roots at /tmp/r9/s and /tmp/r9/b and a worktree of /verif at /tmp/verif_base (first-try numbers)
import json, os, subprocess, sys, glob
kind, wtroot = sys.argv[1], sys.argv[2]
props = sys.argv[3:]
P = {json.loads(l)['id']: json.loads(l) for l in open('/verif/properties.jsonl')}
def prop_text(d):
    out = ["Property %s - %s" % (d['id'], d['title']), "", "Statement: " + d['statement'], "",
           "Quantified: " + d['quantifier']['text'], "", "Why the existing tests cannot settle it: " + d['why_tests_cant'], "",
           "Anchors in the code:"]
    a = d['anchors']
    out.append("  files: " + ", ".join(a.get('files', [])))
    for k in ('state', 'mechanism'):
        for it in a.get(k, []):
            out.append("  %s: %s (%s)%s" % (k, it['name'], it.get('where', ''), (" - " + it['meaning']) if it.get('meaning') else ""))
    if a.get('observe_at'):
        out.append("  observe at: " + "; ".join(a['observe_at']))
    return "\n".join(out)
for p in props:
    wt = os.path.join(wtroot, p)
    if not os.path.isdir(wt):
        subprocess.check_call(["git", "-C", "/repo", "worktree", "add", "-q", "--detach", wt, "HEAD"])
    os.makedirs(os.path.join(wt, "_seed"), exist_ok=True)
    base = 'seeded' if kind == 'seed' else 'benign'
    earlier = []
    for d in sorted(glob.glob('/verif/%s/*%s*' % (base, p))):
        try:
            m = json.load(open(d + '/meta.json'))
        except Exception:
            continue
        if m.get('property') == p:
            earlier.append("- " + m.get('summary', '')[:600])
    common = """
You work ONLY inside the git worktree %(wt)s (a checkout of the library nsetzer/mpgameserver, Python, pure-Python encrypted UDP game
networking library; package directory `mpgameserver/`, tests in `tests/`). Do not read or touch /repo, /verif or any other directory;
do not commit. Interpreter: /venv/bin/python. Test suite (89 tests must pass):
    cd %(wt)s && /venv/bin/python -m pytest -q -p no:cacheprovider --timeout=900
Other people run the same suite in other directories at the same time, and the server tests bind fixed UDP/TCP ports: if a
server/client/twisted test fails in a way unrelated to your change, wait a few seconds and run the suite again before concluding.
The sources have CRLF line endings - keep them (edit with a tool that preserves them; check `git diff --stat` shows only the lines you meant).

%(prop)s
""" % dict(wt=wt, prop=prop_text(P[p]))
    if kind == 'seed':
        task = common + """
TASK. Make a change to the library (files under mpgameserver/ only) that BREAKS this property, while the code still imports and
all 89 existing tests still pass. It must be a realistic change - the kind of slip or well-meant "improvement" (an optimisation, a
clean-up, a refactoring, a new convenience) a maintainer could plausibly make and a reviewer could plausibly accept - not sabotage,
and it must need something specific to manifest: a particular interleaving, a crash or fault at a particular point, a multi-step
sequence of operations, an unusual input, or two cooperating sites that each look fine alone. Ordinary use must NOT expose it at once.
Keep the diff small (typically 3-40 changed lines) and natural-looking (no comments that point at the defect).

The following ideas have been used already for this property - yours must be a DIFFERENT idea (different mechanism, ideally a different
function or clause of the property):
%(earlier)s

DELIVER, in %(wt)s/_seed/ :
  patch.diff  - output of `git diff -- mpgameserver` run in the worktree (must apply with `git apply` to a clean checkout)
  demo.py     - a small stand-alone program, run as `/venv/bin/python _seed/demo.py` from the worktree root (it should insert the
                worktree root into sys.path itself), deterministic, < 60 s, no network beyond localhost, that exits 1 (printing what
                went wrong) WITH your change and exits 0 WITHOUT it (i.e. after `git checkout -- mpgameserver`). It must demonstrate the
                violation of the property as stated, through the library's real code, not by inspecting source text.
  meta.json   - {"property": "%(p)s", "summary": "<what was changed and why it breaks the property>", "needs": "<what is needed for it
                to manifest>", "files": [...], "why_tests_pass": "<why the 89 tests do not notice>"}
Verify all of it yourself: suite passes with the change; demo exits 1 with it and 0 without it; then leave the worktree WITH the change applied.
Finish by replying with a three-line summary.
""" % dict(wt=wt, p=p, earlier="\n".join(earlier) or "- (none)")
    else:
        task = common + """
TASK. Refactor the code this property is anchored in (files under mpgameserver/ only) WITHOUT changing its behaviour in any way a
caller, a peer on the network or a subclass could observe: same results, same exceptions (type and point where raised), same effects
in the same order, same wire bytes. Refactor like a maintainer with taste and opinions would - rename locals, extract or inline
helpers, restructure conditionals and loops, use other idioms / stdlib equivalents, move constants, reorder independent statements,
merge or split functions - touching the functions named in the anchors substantially (30-150 changed lines). The property must still
hold exactly as before, and all 89 tests must still pass. Do not change public names or signatures.

These refactorings have been done before for this property - choose DIFFERENT idioms and restructurings:
%(earlier)s

DELIVER, in %(wt)s/_seed/ :
  patch.diff  - output of `git diff -- mpgameserver` run in the worktree (must apply with `git apply` to a clean checkout)
  demo.py     - a stand-alone program, run as `/venv/bin/python _seed/demo.py` from the worktree root (it inserts the worktree root into
                sys.path itself), deterministic, < 60 s, that exercises the refactored functions thoroughly through the library's real code
                (edge cases of the property, not only the happy path) and exits 0 both WITH and WITHOUT your change (print + exit 1 on any difference
                from the expected behaviour).
  meta.json   - {"property": "%(p)s", "kind": "benign", "summary": "<what was restructured>", "files": [...],
                "why_equivalent": "<argument, per change, that behaviour is identical>"}
Verify it yourself: suite passes with the change, demo exits 0 with and without it; then leave the worktree WITH the change applied.
Finish by replying with a three-line summary.
""" % dict(wt=wt, p=p, earlier="\n".join(earlier) or "- (none)")
    open(os.path.join(wt, "_TASK.md"), "w").write(task)
    print(wt)
