#!/venv/bin/python
"""writes /verif/MANIFEST.json from the rule modules' own metadata"""
import importlib, json, os, sys
HERE = os.path.dirname(os.path.dirname(os.path.abspath(__file__)))
sys.path.insert(0, HERE)
TECH = {
 "C01": "path-condition implication and an authentication edge cut over the CFG of Packet.from_bytes (boolean abstraction), struct-format and composed-slice agreement, dominance of authentication over effects, thin-wrapper rule for the AES-GCM helpers",
 "C02": "CFG dominance of signature verification over field stores, taint of verified bytes, sibling agreement of the two HKDF derivations, straight-line symbolic store of _recvClientHello (the values held by key, salt and reply fields at the end of each path), control dependence of promotion on token validation; the verifying key by enumeration of its alternatives (reaching definitions and arms of conditional expressions, each under its path conditions)",
 "C03": "who-may-write / who-may-call rules, dominance of the rate cap and of the single sequence increment, folded ring-turn arithmetic, path-condition analysis of the clear-text exemption, retry-mode rule for the exempted hello messages",
 "C04": "interval (comparison-partition) abstract interpretation of BitField.insert per window width; dominance of the duplicate test; origin tracking of retransmitted message numbers; partial evaluation of FragmentReceiver.receive on (state, index) pairs (engine/minieval.py); CFG must-pass-through (normal and exceptional edges) of the queue reset between hand-offs; shared interval analysis of SeqNum arithmetic (0 never produced)",
 "C05": "constant-program evaluation of Packet.setMTU per MTU, linear accounting model of the packing loops anchored on the admit statement (CFG conditions, values through temporaries), offset abstraction of the fragment split, cell analysis of the message window, who-may-raise / who-may-discard rules, shared codec obligations",
 "C06": "writer/reader struct-format agreement of the fragment layer, partial evaluation of parsePayload on fragments framed with the writer's format (engine/minieval.py), capacity equalities per MTU, who-may-call delivery rules",
 "C07": "sibling cross-check of _handle_ack/_handle_timeout, edge cut for the success verdict, one-shot typestate of RetrySender / FragmentSender, shared capacity, codec and ack-geometry obligations",
 "C08": "interval abstract interpretation of SeqNum.__add__/__sub__/diff over the whole raw range; exhaustive encoder/decoder geometry agreement over all window offsets",
 "C09": "struct-format agreement of header and message framing, cursor model (linear forms) of the multi-message decoder, linear accounting model of the packing loops per MTU against field capacities, possibly-unbound-local analysis of the send paths",
 "C10": "typestate on the connected pool via CFG must-pass-through (including exceptional edges), handler containment, call-graph reachability from foreign thread entry points, key-kind agreement; shared containment / closed-list rules for the liveness of the server loop",
 "C11": "dominance of the block-list test, try/except containment rules, closed list of uncontained calls in the main loop, guarded-reply rules for the hello path, writer/reader agreement of the hello padding length by value (through temporaries)",
 "C12": "name resolution, who-may-call rule for the start of the connect deadline (call graph), declared/read attribute agreement between client, context and connection classes, control-dependence sets of the keep-alive and timeout statements compared as condition literals",
 "C13": "writer/reader table folding and struct-format agreement; interval analysis of serialize_int against struct ranges; dispatch on type(value) by value through temporaries; edge cut for the TypeError fall-through; reaching-definition identity of parameter and packed value in the scalar writers",
 "C14": "decoder call graph; loop-bound and consumption rules, forward-only stream rule (no function of the graph repositions a stream), allocation-sink scan with positive control, no decompressor reachable from the peer-data entry points, closed-universe dispatch rules (table dispatch only, no computed callable)",
 "C15": "abstract interpretation of the toJson / fromJson container dispatch over a term language (rules/jsonshape.py), decision-path sets of the basic converters, sibling agreement of the enum name maps",
 "C16": "partial evaluation of Router.patternToRegex on constant patterns (engine/minieval.py, the program is not run) and differencing of the built texts into per-kind fragments; regular-expression AST analysis (FIRST sets, capture counts, character classes) of the fragments; Router.getRoute decided by partial evaluation on a model route table with recording stand-in pattern objects (order of tries, first match, token/group pairing), structural no-pre-filter rule on its loop; fresh-container rule for the route table",
 "C17": "containment decided by partial evaluation of path_join_safe with os.path replaced by POSIX string functions on a root x name family (engine/minieval.py); fallback edge cut over the CFG of path_join_safe: with the out-edges of the classified containment tests removed no return is reachable; def-use identity of the guarded and the returned value; the component test (dot segments, backslashes) decided by partial evaluation of the function up to os.path.join on a family of file names (engine/minieval.py)",
 "C18": "interval (cell) exploration of the two length-form encoders over payload_length with the packed values captured; read-path formats and byte counts by value through temporaries; flag geometry decided by folding each field expression for all 256 byte values; frameSize decided by partial evaluation (engine/minieval.py, the program is not run) on every header prefix against what the read path consumes; straight-line symbolic evaluation of the frame factories and of hasFrame; RFC 6455 opcode agreement; shape rule for the frame read loop",
 "C19": "partial evaluation of hash_password / verify_password on constant inputs with the cryptographic library replaced by recording stand-ins (engine/minieval.py, rules/c19eval.py; nothing is run): refusals and their exception types, the values that reach Scrypt on both sides, the verdict; fallback and remaining rules: exception-discipline table, dominance of verification over the True result, writer/reader agreement on flattened byte-string terms, edge cuts for method/version and length validation, reaching definitions of the salt (CSPRNG, fresh per call)",
 "C20": "key-kind (NAME vs class) agreement on registered_events by reaching definitions, guard-polarity contradiction rule, sibling agreement of register/unregister, decorator and dispatch wiring by value (symbolic expression of what is stored / called) with edge cuts for the refusals (also for the duplicate-registration refusal: no normal exit with the name present); who-may-remove / who-may-call rule for unregistration",
}
from rules.common import IDIOMS_NOTE
checks = []
for i in range(1, 21):
    pid = "C%02d" % i
    m = importlib.import_module("rules.%s" % pid.lower())
    rules = [r for r, _ in m.RULES]
    checks.append({
        "property_id": pid,
        "quick_cmd": "./check %s --tier quick" % pid,
        "thorough_cmd": "./check %s --tier thorough" % pid,
        "evidence_file": "evidence/%s.json" % pid,
        "replay_cmd_template": "./check %s --replay {path}" % pid,
        "engine": "static-rules",
        "level_claimed": {
            "category": "other",
            "text": ("Static conformance to the repository-specific rules %s, decided from the source of /repo's current working tree on every run "
                     "(nothing is imported or executed): each rule is a necessary structural condition of the property - breaking it breaks the behaviour - "
                     "and is universally quantified over paths / cells / call sites by construction. " % ", ".join(sorted(rules))) + m.EXPLANATION + IDIOMS_NOTE,
            "design_ref": "DESIGN.md section 4, %s" % pid,
        },
        "level_note": "Decides the named structural clauses only, not the runtime behaviour as a whole. Trusted base: CPython ast/symtable/re._parser/struct.calcsize and /verif/engine. Assumes: " + "; ".join(m.ASSUMPTIONS),
        "technique": "static analysis: " + TECH[pid],
    })
man = {
 "version": 1,
 "setup_cmd": "true",
 "hooks": {"guard": "NSETZER_MPGAMESERVER_VERIF", "enable": "none needed: the checks read the source of /repo, they never import or run it", "baseline_off_cmd":
           "cd /repo && /venv/bin/python -m pytest -ra -q -p no:cacheprovider --timeout=900 --continue-on-collection-errors", "source_commits": [], "add_only": True},
 "engines": [{"name": "static-rules", "path": "engine/", "serves_properties": ["C%02d" % i for i in range(1, 21)],
              "kind_free_text": "stdlib-only static analysis engine: index (E0), constant folder (E1), CFG with dominators (E2), boolean abstraction of path conditions (E3), interval / comparison-partition abstract interpreter (E4), reaching definitions (E5), call graph (E6), name resolution (E7), struct-format and regex-AST readers (E8), partial evaluator for pure builders (E9), translation of refactored code towards the reference spelling (engine/refnames.py)"}],
 "checks": checks,
 "notes": "All 20 properties are claimed at level 'other' for named structural clauses (see DESIGN.md section 4 and 7 for what is not decided). Exit 0: all obligations hold or are listed known findings; exit 1: VIOLATION lines; exit 2: ANALYSIS-ERROR (missing anchor / construct outside the rule's model) - never an alarm. Known findings: known_findings.json.",
 "not_applicable": [],
}
json.dump(man, open(os.path.join(HERE, "MANIFEST.json"), "w"), indent=1)
print("ok", len(checks))
