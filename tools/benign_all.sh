#!/bin/bash
# tools/benign_all.sh <name> : every quick check on a scratch copy with /verif/benign/<name>/patch.diff applied; prints only the checks that do not exit 0
n=$1
d=$(mktemp -d /tmp/bn_XXXXXX); cp -r /repo/mpgameserver $d/; (cd $d && git init -q . 2>/dev/null; git apply --whitespace=nowarn /verif/benign/$n/patch.diff) || { echo apply failed; rm -rf $d; exit 2; }
bad=0
for i in $(seq -w 1 20); do
  out=$(/verif/check C$i --root $d --no-evidence --evidence-dir $d); rc=$?
  if [ $rc != 0 ]; then bad=$((bad+1)); echo "== C$i exit=$rc"; echo "$out" | grep -v "^KNOWN\|^VIOLATION" | grep "rule=\|ANALYSIS-ERROR\|undecided" | cut -c1-${CUT:-400}; fi
done
echo "$n: $bad check(s) not silent"
rm -rf $d
