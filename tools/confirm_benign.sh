#!/bin/bash
# tools/confirm_benign.sh <src _seed dir> <name>  : confirm a behaviour-preserving refactoring in a fresh scratch worktree and file it under /verif/benign/<name>
set -u
src=$1; name=$2
wt=${CONFIRM_WT:-$(mktemp -d /tmp/confirm_XXXXXX)}; rmdir "$wt" 2>/dev/null
git -C /repo worktree add -q --detach "$wt" HEAD || exit 2
res=fail
( cd "$wt" && mkdir -p _seed && cp "$src"/demo.py _seed/demo.py
  git apply --whitespace=nowarn "$src/patch.diff" || { echo "APPLY-FAILED"; exit 3; }
  suite=$(/venv/bin/python -m pytest -q -p no:cacheprovider --timeout=900 2>&1 | tail -1)
  timeout 120 /venv/bin/python _seed/demo.py > /tmp/confirm_with.txt 2>&1; with=$?
  git checkout -q -- mpgameserver
  timeout 120 /venv/bin/python _seed/demo.py > /tmp/confirm_without.txt 2>&1; without=$?
  echo "suite_with_change: $suite"
  echo "demo_with_change_exit: $with"
  echo "demo_without_change_exit: $without"
  case "$suite" in *"89 passed"*) s=1;; *) s=0;; esac
  if [ $s = 1 ] && [ $with = 0 ] && [ $without = 0 ]; then exit 0; else exit 1; fi
) > /tmp/confirm_out.txt 2>&1
rc=$?
cat /tmp/confirm_out.txt
git -C /repo worktree remove --force "$wt"
if [ $rc = 0 ]; then
  d=/verif/benign/$name; mkdir -p "$d"
  cp "$src/patch.diff" "$d/patch.diff"; cp "$src/demo.py" "$d/demo.py"
  /venv/bin/python - "$src/meta.json" "$d/meta.json" <<PY
import json,sys
m=json.load(open(sys.argv[1]))
m["confirmed"]={"how":"tools/confirm_benign.sh in a fresh scratch worktree of /repo HEAD (removed afterwards)",
 "ran":["git apply patch.diff","/venv/bin/python -m pytest -q -p no:cacheprovider --timeout=900","/venv/bin/python _seed/demo.py (with the change)","git checkout -- mpgameserver","/venv/bin/python _seed/demo.py (without the change)"],
 "result":open("/tmp/confirm_out.txt").read().strip().splitlines()}
json.dump(m,open(sys.argv[2],"w"),indent=1)
PY
  echo "CONFIRMED -> $d"
else
  echo "NOT CONFIRMED ($rc)"
fi
