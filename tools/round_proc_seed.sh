#!/bin/bash
# proc_seed.sh Cnn suffix : confirm + file + first-try result (base machinery) + current machinery result
p=$1; suf=$2; src=/tmp/r9/s/$p/_seed
[ -f $src/patch.diff ] || (cd /tmp/r9/s/$p && git diff -- mpgameserver > _seed/patch.diff)
/verif/tools/confirm_seed.sh $src $p-$suf | tail -5
[ -d /verif/seeded/$p-$suf ] || exit 1
echo "--- first try (base):"; /verif/tools/seed_one.sh $p-$suf /tmp/verif_base/check
echo "--- now:"; VERBOSE=1 CUT=300 /verif/tools/seed_one.sh $p-$suf
