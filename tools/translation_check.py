#!/venv/bin/python
"""development-time validation of engine/refnames.py (not part of any check): apply a whole-package transform to a scratch
worktree of /repo, let the index translate it back towards the reference, write the *translated* trees over the files and run
the repository's own test suite on the result.  A translation step that changed behaviour would show up as failing tests."""
import ast, os, subprocess, sys, tempfile, shutil
V = os.path.dirname(os.path.dirname(os.path.abspath(__file__)))
sys.path.insert(0, V)
from selftest import transforms
from engine.index import Repo

def main():
    names = sys.argv[1:] or list(transforms.ALL)
    for t in names:
        wt = os.environ.get("TRCHECK_WT") or tempfile.mkdtemp(prefix="trcheck_")    # (a demo may insist on its author's path)
        if os.path.isdir(wt):
            os.rmdir(wt)
        subprocess.run(["git", "-C", "/repo", "worktree", "add", "-q", "--detach", wt, "HEAD"], check=True)
        try:
            demo = None
            if os.path.isdir(os.path.join(V, "benign", t)):
                # a filed refactoring: its own demonstration (recorded behaviour of the original code) is run on the translated tree too
                subprocess.run(["git", "apply", "--whitespace=nowarn", os.path.join(V, "benign", t, "patch.diff")], cwd=wt, check=True)
                demo = os.path.join(V, "benign", t, "demo.py")
            elif t.endswith(".diff"):
                subprocess.run(["git", "apply", "--whitespace=nowarn", os.path.abspath(t)], cwd=wt, check=True)
            else:
                getattr(transforms, t)(wt)
            repo = Repo(wt)
            n = sum(len(v) if isinstance(v, (list, dict)) else 1 for d in (repo.renamed, getattr(repo, "inlined_aliases", {}), getattr(repo, "folded_temporaries", {}),
                                                                            getattr(repo, "respelled", {}), getattr(repo, "positional", {}), getattr(repo, "inlined_helpers", {}), getattr(repo, "unrolled_tables", {}),
                                                                            getattr(repo, "dict_gets", {}), getattr(repo, "struct_objects", {}), getattr(repo, "propagated_constants", {})) for v in d.values())
            for m in repo.modules.values():
                out = ast.unparse(m.tree) + "\n"
                compile(out, m.path, "exec")
                open(m.path, "w", newline="\n").write(out)
            r = subprocess.run(["/venv/bin/python", "-m", "pytest", "-q", "-p", "no:cacheprovider", "--timeout=900"], cwd=wt, capture_output=True, text=True)
            extra = ""
            if demo:
                os.makedirs(os.path.join(wt, "_seed"), exist_ok=True)
                shutil.copy(demo, os.path.join(wt, "_seed", "demo.py"))
                d = subprocess.run(["/venv/bin/python", "_seed/demo.py"], cwd=wt, capture_output=True, text=True, timeout=300)
                extra = " demo_exit=%d" % d.returncode
                if d.returncode and os.environ.get("TRCHECK_VERBOSE"):
                    extra += "\n" + (d.stdout + d.stderr)[-3000:]
            print("%-40s translated constructs=%-5d suite: %s%s" % (t[-40:], n, r.stdout.strip().splitlines()[-1] if r.stdout.strip() else r.stderr[-200:], extra))
        finally:
            subprocess.run(["git", "-C", "/repo", "worktree", "remove", "--force", wt])
main()
