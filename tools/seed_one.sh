#!/bin/bash
# tools/seed_one.sh <seeded name> [check script] : the seeded change applied to a scratch copy; exit status and rules of its own property's check
n=$1; chk=${2:-/verif/check}
prop=$(/venv/bin/python -c "import json;print(json.load(open('/verif/seeded/$n/meta.json'))['property'])")
d=$(mktemp -d /tmp/sd_XXXXXX); cp -r /repo/mpgameserver $d/; (cd $d && git init -q . 2>/dev/null; git apply --whitespace=nowarn /verif/seeded/$n/patch.diff) || { echo apply failed; rm -rf $d; exit 2; }
out=$($chk $prop --root $d --no-evidence --evidence-dir $d); rc=$?
echo "$n $prop exit=$rc rules=$(echo "$out" | grep -o 'rule=[A-Z0-9.]*' | sort -u | tr '\n' ' ')"
[ "${VERBOSE:-0}" = 1 ] && echo "$out" | grep "rule=\|ANALYSIS" | cut -c1-${CUT:-400}
rm -rf $d
