#!/bin/bash
# tools/apply_benign.sh <name> <prop...> : scratch copy of /repo/mpgameserver with /verif/benign/<name>/patch.diff applied, run the given checks on it
n=$1; shift
d=$(mktemp -d /tmp/bn_XXXXXX); mkdir -p $d; cp -r /repo/mpgameserver $d/; (cd $d && git init -q . 2>/dev/null; git apply --whitespace=nowarn /verif/benign/$n/patch.diff) || { echo apply failed; exit 2; }
for p in "$@"; do /verif/check $p --root $d --no-evidence --evidence-dir $d | grep -v "^VIOLATION\|^KNOWN" | cut -c1-${CUT:-600}; done
/venv/bin/python - $d <<PY
import sys; sys.path.insert(0,'/verif')
from engine.index import Repo
r=Repo(sys.argv[1])
print("inlined_helpers", r.inlined_helpers, "| aliases", r.inlined_aliases, "| temps", r.folded_temporaries, "| renamed", {k: v for k, v in r.renamed.items()})
PY
rm -rf $d
